"""Symbolic strings for proofs by cases about small string functions.

A value is a concatenation of literal pieces, *atoms* (an unknown string constrained to a regular language) and
opaque function applications (strip(F), lower(F) ...).  Every operation the repository applies to a string
(partition / split / index / find / startswith / slices / strip / comparisons / truth value / `in`) is either
decided exactly from the structure and the languages of the pieces, or refused with `Undecided` -- then the
case split chosen by the rule is too coarse and the rule reports an analysis error, never a guess.

The rule describes the input domain as a finite set of cases (e.g. "F" and "F \\n R" with F newline-free),
runs the function's code in the interpreter of sa.heap on each case and compares the resulting terms with
the specified ones.  Nothing of the repository is executed; a case stands for all strings of its language."""
import re

from . import rx
from .core import AnalysisError

WS = ' \t\n\r\x0b\x0c'      # replaced below by every whitespace symbol of the alphabet (str.strip() strips Unicode whitespace)


def ws_chars():
    return ''.join(c for c in alpha().syms if isinstance(c, str) and c.isspace())


class Undecided(AnalysisError):
    """a decision is not determined by the case; `atom`/`split` (when known) say how to refine the case: the values of
    the atom in `split` decide it one way, the others the other way"""

    def __init__(self, msg, atom=None, split=None):
        AnalysisError.__init__(self, msg)
        self.atom, self.split = atom, split


class _Refine(Undecided):
    """an Undecided that is meant to reach explore() (not to be absorbed into an opaque function application)"""


_exploring = [0]
_alpha = [None]


def alpha():
    if _alpha[0] is None:
        _alpha[0] = rx.alphabet('str')
    return _alpha[0]


def L(pattern, flags=re.S):
    return rx.regex_lang(pattern, flags, 'fullmatch', alpha=alpha())


def lit_lang(text):
    return L(re.escape(text)) if text else L('')


_lines_cache = {}


def line_count_lang(op, k):
    """language of the strings s with  len(s.splitlines()) <op> k  (op: 'Eq', 'NotEq', 'Lt', 'LtE', 'Gt', 'GtE'); the line
    boundaries are those of str.splitlines, "\\r\\n" counting once; a trailing boundary does not open another line"""
    key = (op, k)
    if key not in _lines_cache:
        a = alpha()
        cap = k + 2
        isb = [len(('a' + c + 'b').splitlines()) > 1 for c in a.syms]

        def step(st, sym):
            count, cr, cur = st
            c = a.syms[sym]
            if c == '\n' and cr:
                return (count, False, False)
            if isb[sym]:
                return (min(count + 1, cap), c == '\r', False)
            return (count, False, True)

        def acc(st):
            n = st[0] + (1 if st[2] else 0)
            return {'Eq': n == k, 'NotEq': n != k, 'Lt': n < k, 'LtE': n <= k, 'Gt': n > k, 'GtE': n >= k}[op]
        _lines_cache[key] = rx.from_function(a, [], (0, False, False), step, acc)
    return _lines_cache[key]


class Atom:
    def __init__(self, name, lang):
        self.name, self.lang = name, lang

    def __repr__(self):
        return '<%s>' % self.name

    def key(self):
        return ('atom', self.name)


class Fn:
    """opaque function of a symbolic string with a known image language"""

    def __init__(self, name, arg, lang, extra=()):
        self.name, self.arg, self.lang, self.extra = name, arg, lang, tuple(extra)

    def __repr__(self):
        return '%s(%r%s)' % (self.name, self.arg, ''.join(', %r' % (x,) for x in self.extra))

    def key(self):
        return ('fn', self.name, self.arg.key(), self.extra)


class SInt:
    """non-negative lengths: const + sum coeff * len(piece)"""

    def __init__(self, const=0, terms=None):
        self.const = const
        self.terms = {k: v for k, v in (terms or {}).items() if v}

    def __add__(self, o):
        if isinstance(o, int):
            return SInt(self.const + o, self.terms)
        t = dict(self.terms)
        for k, v in o.terms.items():
            t[k] = t.get(k, 0) + v
        return SInt(self.const + o.const, t)

    __radd__ = __add__

    def __neg__(self):
        return SInt(-self.const, {k: -v for k, v in self.terms.items()})

    def __sub__(self, o):
        return self + (-(o if isinstance(o, SInt) else SInt(o)))

    def __rsub__(self, o):
        return SInt(o) - self

    def sign(self):
        """'0' / '+' / '-' / '>=0' / '<=0' / None for the value of the expression (all lengths >= 0)"""
        if not self.terms:
            return '0' if self.const == 0 else '+' if self.const > 0 else '-'
        if all(v > 0 for v in self.terms.values()):
            return '+' if self.const > 0 else '>=0' if self.const == 0 else None
        if all(v < 0 for v in self.terms.values()):
            return '-' if self.const < 0 else '<=0' if self.const == 0 else None
        return None

    def __repr__(self):
        return 'SInt(%s%s)' % (self.const, ''.join(' %+d*|%s|' % (v, k[1] if isinstance(k, tuple) else k) for k, v in self.terms.items()))


def compare_int(a, op, b):
    """True/False for a OP b over SInt/int, Undecided otherwise"""
    d = (a if isinstance(a, SInt) else SInt(a)) - (b if isinstance(b, SInt) else SInt(b))
    s = d.sign()
    table = {
        'Eq': {'0': True, '+': False, '-': False}, 'NotEq': {'0': False, '+': True, '-': True},
        'Lt': {'0': False, '+': False, '-': True, '>=0': False}, 'LtE': {'0': True, '+': False, '-': True, '<=0': True},
        'Gt': {'0': False, '+': True, '-': False, '<=0': False}, 'GtE': {'0': True, '+': True, '-': False, '>=0': True},
    }
    r = table[op].get(s)
    if r is None:
        raise Undecided('integer comparison %r %s %r' % (a, op, b))
    return r


class SStr:
    def __init__(self, parts=()):
        out = []
        for p in parts:
            if isinstance(p, SStr):
                ps = p.parts
            else:
                ps = [p]
            for q in ps:
                if isinstance(q, str):
                    if not q:
                        continue
                    if out and isinstance(out[-1], str):
                        out[-1] += q
                        continue
                out.append(q)
        # first(X) + rest(X) = X
        i = 0
        while i + 1 < len(out):
            a, b = out[i], out[i + 1]
            if isinstance(a, Fn) and isinstance(b, Fn) and a.name == 'first' and b.name == 'rest' and a.arg.key() == b.arg.key():
                out[i:i + 2] = a.arg.parts
                continue
            if isinstance(a, Fn) and isinstance(b, Fn) and a.name == 'init' and b.name == 'last' and a.arg.key() == b.arg.key():
                out[i:i + 2] = a.arg.parts
                continue
            i += 1
        self.parts = out
        self._lang = None

    # -- basics
    def key(self):
        return tuple(p if isinstance(p, str) else p.key() for p in self.parts)

    def __repr__(self):
        return ' + '.join(repr(p) for p in self.parts) if self.parts else "''"

    def same(self, o):
        o = lift(o)
        return self.key() == o.key()

    def concrete(self):
        if all(isinstance(p, str) for p in self.parts):
            return ''.join(self.parts)
        return None

    def lang(self):
        if self._lang is None:
            cur = lit_lang('')
            for p in self.parts:
                cur = rx.concat(cur, lit_lang(p) if isinstance(p, str) else p.lang)
            self._lang = cur
        return self._lang

    @staticmethod
    def _piece_len(p):
        """length of one piece as a term: literals by their length, first/last as 1, rest/init of x as |x| - 1"""
        if isinstance(p, str):
            return SInt(len(p))
        if isinstance(p, Fn) and p.name in ('first', 'last'):
            return SInt(1)
        if isinstance(p, Fn) and p.name in ('rest', 'init'):
            return p.arg.length() - 1
        return SInt(0, {p.key(): 1})

    def length(self):
        n = SInt()
        for p in self.parts:
            n = n + self._piece_len(p)
        return n

    def __add__(self, o):
        return SStr([self, lift(o)])

    def __radd__(self, o):
        return SStr([lift(o), self])

    # -- decisions through the language
    def _decide(self, lang_true, what):
        mine = self.lang()
        if mine.not_subset_witness(lang_true) is None:
            return True
        if mine.intersect(lang_true).is_empty():
            return False
        atom, split = self._preimage(lang_true)
        raise Undecided('%s is not determined for the case %r' % (what, self), atom, split)

    def _preimage(self, lang_true):
        """(atom, language of the atom's values for which the term is in lang_true) when the term depends on one atom -- through
        literal context and nested strip / first / rest / init / last"""
        sym = [p for p in self.parts if not isinstance(p, str)]
        if len(sym) != 1:
            return None, None
        p = sym[0]
        i = self.parts.index(p)
        pre = ''.join(x for x in self.parts[:i])
        suf = ''.join(x for x in self.parts[i + 1:])
        try:
            inner = rx.quotient(lang_true, pre, suf) if (pre or suf) else lang_true
        except Exception:      # pylint: disable=broad-except
            return None, None
        if isinstance(p, Atom):
            return p, inner
        if isinstance(p, Fn) and p.name in ('strip', 'lstrip', 'rstrip'):
            cs = ws_chars() if not p.extra else p.extra[0]
            cls_ = '[' + ''.join(re.escape(ch) for ch in cs) + ']'
            left = p.name in ('strip', 'lstrip')
            right = p.name in ('strip', 'rstrip')
            core = inner
            if left:
                core = core.minus(L('(?s:' + cls_ + '.*)'))
            if right:
                core = core.minus(L('(?s:.*' + cls_ + ')'))
            pad = L(cls_ + '*')
            out = core
            if left:
                out = rx.concat(pad, out)
            if right:
                out = rx.concat(out, pad)
            return p.arg._preimage(out)
        if isinstance(p, Fn) and p.name in ('first', 'rest', 'init', 'last'):
            anyc = L('(?s:.)')
            anys = L('(?s:.*)')
            out = {'first': lambda: rx.concat(inner.intersect(anyc), anys), 'last': lambda: rx.concat(anys, inner.intersect(anyc)),
                   'rest': lambda: rx.concat(anyc, inner), 'init': lambda: rx.concat(inner, anyc)}[p.name]()
            return p.arg._preimage(out)
        return None, None

    def truth(self):
        if any(isinstance(p, str) and p for p in self.parts):
            return True
        sym = [p for p in self.parts if not isinstance(p, str)]
        if len(sym) > 1:
            # non-empty iff one of the pieces is: decided piece by piece, refining on the first piece that can be either
            empt = lit_lang('')
            if any(p.lang.intersect(empt).is_empty() for p in sym):
                return True
            if all(p.lang.not_subset_witness(empt) is None for p in sym):
                return False
            for p in sym:
                if p.lang.not_subset_witness(empt) is not None:
                    raise _und(p, L('(?s:.+)'), 'truth value is not determined for the case %r' % (self,))
        return self._decide(L('(?s:.+)'), 'truth value')

    def contains(self, sub):
        c = lift(sub).concrete()
        if c is None:
            raise Undecided('`in` with a symbolic needle')
        if any(isinstance(p, str) and c in p for p in self.parts):
            return True
        return self._decide(L('.*' + re.escape(c) + '.*'), '%r in' % c)

    def startswith(self, pre):
        c = lift(pre).concrete()
        if c is None:
            raise Undecided('startswith with a symbolic prefix')
        return self._decide(L(re.escape(c) + '.*'), 'startswith(%r)' % c)

    def endswith(self, suf):
        c = lift(suf).concrete()
        if c is None:
            raise Undecided('endswith with a symbolic suffix')
        return self._decide(L('.*' + re.escape(c)), 'endswith(%r)' % c)

    def equals(self, o):
        o = lift(o)
        if self.same(o):
            return True
        if self.lang().intersect(o.lang()).is_empty():
            return False
        a, b = self.concrete(), o.concrete()
        if a is not None and b is not None:
            return a == b
        if b is not None:
            return self._decide(lit_lang(b), '== %r' % b)
        if a is not None:
            return o._decide(lit_lang(a), '== %r' % a)
        raise Undecided('%r == %r' % (self, o))

    def member_of(self, chars_or_items):
        """self in 'abc' (substring of a constant) / self in (a, b, c)"""
        if isinstance(chars_or_items, str):
            subs = {chars_or_items[i:j] for i in range(len(chars_or_items) + 1) for j in range(i, len(chars_or_items) + 1)}
            pat = '|'.join(re.escape(s) for s in sorted(subs))
            return self._decide(L('(?:%s)' % pat), 'in %r' % chars_or_items)
        items = list(chars_or_items)
        consts = [lift(x).concrete() if isinstance(x, (str, SStr)) else None for x in items]
        if items and all(c is not None for c in consts):
            # membership in a tuple of constants: one language decision (with a refinement hint when undecided)
            return self._decide(L('(?:%s)' % '|'.join(re.escape(c) for c in sorted(set(consts)))), 'in %r' % (tuple(consts),))
        res = []
        for it in items:
            try:
                res.append(self.equals(it))
            except Undecided:
                res.append(None)
        if any(r is True for r in res):
            return True
        if all(r is False for r in res):
            return False
        raise Undecided('membership of %r' % (self,))

    # -- structure
    def _sep_free(self, p, sep):
        if isinstance(p, str):
            return sep not in p
        return p.lang.intersect(L('.*' + re.escape(sep) + '.*')).is_empty()

    def _cut(self, sep, maxsplit=None, from_right=False):
        """pieces between occurrences of the one-character separator; the occurrences that matter (all of them, or the
        first / last `maxsplit`) must lie in literal pieces and the pieces before them must be free of it"""
        if len(sep) != 1:
            raise Undecided('separator %r longer than one character' % sep)
        limit = maxsplit if (maxsplit is not None and maxsplit >= 0) else None
        if from_right:
            rev = SStr([p[::-1] if isinstance(p, str) else Fn('reversed', SStr([p]), _rev_lang(p.lang)) for p in reversed(self.parts)])
            # reversing opaque pieces is only a device for scanning; map the result back
            pieces = rev._cut(sep, maxsplit)
            out = []
            for pc in reversed(pieces):
                out.append(SStr([q[::-1] if isinstance(q, str) else q.arg for q in reversed(pc.parts)]))
            return out
        pieces, cur = [], []
        parts = list(self.parts)
        i = 0
        while i < len(parts):
            p = parts[i]
            if limit is not None and len(pieces) >= limit:
                cur.extend(parts[i:])
                break
            if isinstance(p, str):
                k = p.find(sep)
                if k < 0:
                    cur.append(p)
                else:
                    cur.append(p[:k])
                    pieces.append(SStr(cur))
                    cur = []
                    parts[i] = p[k + 1:]
                    continue
            else:
                if not self._sep_free(p, sep):
                    raise _und(p, L('.*' + re.escape(sep) + '.*'), 'the piece %r may contain %r' % (p, sep))
                cur.append(p)
            i += 1
        pieces.append(SStr(cur))
        return pieces

    def split(self, sep=None, maxsplit=-1):
        if sep is None:
            c = self.concrete()
            if c is not None:
                return [SStr([x]) for x in c.split(None, maxsplit)]
            return self._split_ws(maxsplit)
        return self._cut(lift(sep).concrete(), maxsplit)

    def _split_ws(self, maxsplit):
        """str.split(None, maxsplit): fields are separated by runs of whitespace; the runs must lie in literal
        pieces, the other pieces must be whitespace-free (and a field must not be possibly empty)"""
        limit = maxsplit if (maxsplit is not None and maxsplit >= 0) else None
        ws_any = L('.*[\\s].*')
        ws_start = L('[\\s].*')
        fields, cur = [], []
        parts = list(self.parts)
        i = 0
        seen_text = False
        while i < len(parts):
            p = parts[i]
            if limit is not None and len(fields) >= limit and (cur or not isinstance(p, str) or p.lstrip() != ''):
                # remainder: leading whitespace is dropped, the rest is kept as it is
                rest = parts[i:]
                if not cur and isinstance(rest[0], str):
                    rest[0] = rest[0].lstrip()
                elif not cur and not rest[0].lang.intersect(ws_start).is_empty():
                    raise Undecided('the remainder %r may start with whitespace' % (rest[0],))
                cur.extend(rest)
                break
            if isinstance(p, str):
                j = 0
                while j < len(p) and not p[j].isspace():
                    j += 1
                if j:
                    cur.append(p[:j])
                    seen_text = True
                if j < len(p):
                    if cur:
                        fields.append(SStr(cur))
                        cur = []
                    k = j
                    while k < len(p) and p[k].isspace():
                        k += 1
                    parts[i] = p[k:]
                    if parts[i]:
                        continue
            else:
                if not p.lang.intersect(ws_any).is_empty():
                    if p.lang.not_subset_witness(ws_any) is None:
                        # every value of the piece contains whitespace: it is cut into at least two fields whose
                        # boundaries are unknown -- represented by opaque parts (never equal to the piece itself)
                        anyl = L('.+')       # fields produced by split() are never empty
                        cur.append(Fn('field-before-whitespace', SStr([p]), anyl))
                        fields.append(SStr(cur))
                        cur = [Fn('fields-after-whitespace', SStr([p]), anyl)]
                        i += 1
                        continue
                    raise _und(p, ws_any, 'the piece %r may contain whitespace' % (p,))
                if not p.lang.intersect(lit_lang('')).is_empty() and not cur:
                    raise _und(p, lit_lang(''), 'the piece %r may be empty' % (p,))
                cur.append(p)
                seen_text = True
            i += 1
        if cur:
            fields.append(SStr(cur))
        _ = seen_text
        return fields

    def rsplit(self, sep=None, maxsplit=-1):
        if sep is None:
            raise Undecided('rsplit() on whitespace')
        return self._cut(lift(sep).concrete(), maxsplit, from_right=True)

    def partition(self, sep):
        s = lift(sep).concrete()
        ps = self._cut(s, 1)
        if len(ps) == 1:
            return (ps[0], SStr(), SStr())
        return (ps[0], SStr([s]), ps[1])

    def rpartition(self, sep):
        s = lift(sep).concrete()
        ps = self._cut(s, 1, from_right=True)
        if len(ps) == 1:
            return (SStr(), SStr(), ps[0])
        return (ps[0], SStr([s]), ps[1])

    def find(self, sub):
        s = lift(sub).concrete()
        ps = self._cut(s, 1)
        if len(ps) == 1:
            return -1
        return ps[0].length()

    def index(self, sub):
        r = self.find(sub)
        if isinstance(r, int) and r == -1:
            raise KeyError('ValueError')
        return r

    def count(self, sub):
        return len(self._cut(lift(sub).concrete())) - 1

    def splitlines(self, keepends=False):
        # only "\n" boundaries can be handled structurally; other boundary characters must be excluded by the case
        for p in self.parts:
            if not isinstance(p, str):
                if not p.lang.intersect(L('.*[\r\x0b\x0c\x1c\x1d\x1e\x85  ].*')).is_empty():
                    raise Undecided('the piece %r may contain a line boundary other than \\n' % (p,))
            elif any(ch in p for ch in '\r\x0b\x0c\x1c\x1d\x1e\x85  '):
                raise Undecided('literal with a line boundary other than \\n')
        ps = self._cut('\n')
        if ps and not ps[-1].parts:
            ps = ps[:-1]
            ended = True
        else:
            ended = False
        if keepends:
            out = [p + '\n' for p in ps[:-1]] + ([ps[-1] + '\n'] if ended and ps else ps[-1:])
            return out
        return ps

    def strip(self, chars=None, left=True, right=True):
        cs = ws_chars() if chars is None else lift(chars).concrete()
        c = self.concrete()
        name = 'strip' if left and right else 'lstrip' if left else 'rstrip'
        if c is not None:
            return SStr([getattr(c, name)(None if chars is None else cs)])
        cls_ = '[' + ''.join(re.escape(ch) for ch in cs) + ']'
        only = L(cls_ + '*')
        parts = list(self.parts)
        extra = (chars,) if chars is not None else ()

        def peel(from_right):
            while parts:
                p = parts[-1] if from_right else parts[0]
                if isinstance(p, str):
                    q = p.rstrip(cs) if from_right else p.lstrip(cs)
                    if q:
                        parts[-1 if from_right else 0] = q
                        return
                    parts.pop(-1 if from_right else 0)
                    continue
                edge = L('.*' + cls_) if from_right else L(cls_ + '.*')
                if p.lang.intersect(edge).is_empty() and p.lang.intersect(lit_lang('')).is_empty():
                    return                                  # never starts/ends with a stripped character, never empty
                if p.lang.not_subset_witness(only) is None:
                    parts.pop(-1 if from_right else 0)      # consists of stripped characters only
                    continue
                if p.lang.intersect(edge).is_empty() and len(parts) == 1:
                    return
                if not p.lang.intersect(only).is_empty():
                    if _exploring[0] and isinstance(p, Atom) and len(parts) > 1:
                        # under explore(): the case is split on "the piece consists of stripped characters only", which keeps the
                        # structure of the rest of the term in both sub-cases
                        raise _Refine('%s: the piece %r may consist of stripped characters only' % (name, p), p, only)
                    raise Undecided('%s: the piece %r may consist of stripped characters only' % (name, p))
                img = p.lang
                if from_right:
                    from . import strlang
                    img = strlang.rstrip_lang(img, cs)
                else:
                    img = _lstrip_lang(img, cs)
                parts[-1 if from_right else 0] = Fn('rstrip' if from_right else 'lstrip', SStr([p]), img, extra)
                return
        try:
            if right:
                peel(True)
            if left:
                peel(False)
        except _Refine as r_:
            raise Undecided(str(r_), r_.atom, r_.split)
        except Undecided:
            # opaque application to the whole term (always sound; structure is lost)
            img = self.lang()
            if right:
                from . import strlang
                img = strlang.rstrip_lang(img, cs)
            if left:
                img = _lstrip_lang(img, cs)
            return SStr([Fn(name, self, img, extra)])
        # lstrip(rstrip(X)) of the same piece is strip(X)
        out = []
        for p in parts:
            if isinstance(p, Fn) and p.name == 'lstrip' and len(p.arg.parts) == 1 and isinstance(p.arg.parts[0], Fn) and p.arg.parts[0].name == 'rstrip' \
                    and p.arg.parts[0].extra == p.extra:
                inner = p.arg.parts[0]
                p = Fn('strip', inner.arg, p.lang, p.extra)
            out.append(p)
        return SStr(out)

    def lstrip(self, chars=None):
        return self.strip(chars, True, False)

    def rstrip(self, chars=None):
        return self.strip(chars, False, True)

    def lower(self):
        c = self.concrete()
        if c is not None:
            return SStr([c.lower()])
        out = []
        upper = L('.*[A-Z\u00c0-\u00de\u0100-\uffff].*')
        for p in self.parts:
            if isinstance(p, str):
                out.append(p.lower())
            elif p.lang.intersect(upper).is_empty():
                out.append(p)                 # no cased character that lower() could change
            else:
                out.append(Fn('lower', SStr([p]), _case_lang(p.lang, str.lower)))
        return SStr(out)

    def upper(self):
        c = self.concrete()
        if c is not None:
            return SStr([c.upper()])
        return SStr([Fn('upper', self, _case_lang(self.lang(), str.upper))])

    # -- positions
    def head(self, k=1):
        """(first k characters, rest)"""
        if k == 0:
            return SStr(), self
        if not self.parts:
            raise KeyError('IndexError')
        p = self.parts[0]
        if isinstance(p, str):
            if len(p) >= k:
                return SStr([p[:k]]), SStr([p[k:]] + self.parts[1:])
            a, b = SStr(self.parts[1:]).head(k - len(p))
            return SStr([p]) + a, b
        if p.lang.not_subset_witness(lit_lang('')) is None:
            return SStr(self.parts[1:]).head(k)          # a piece that is the empty string in this case
        if k != 1:
            raise Undecided('prefix of length %d of %r' % (k, p))
        if not p.lang.intersect(lit_lang('')).is_empty():
            raise _und(p, L('(?s:.+)'), 'first character of the possibly empty piece %r' % (p,))
        one = SStr([p])
        first = Fn('first', one, _first_lang(p.lang))
        rest = Fn('rest', one, _rest_lang(p.lang))
        return SStr([first]), SStr([rest] + self.parts[1:])

    def tail(self, k=1):
        """(all but the last k characters, last k characters)"""
        if k == 0:
            return self, SStr()
        if not self.parts:
            raise KeyError('IndexError')
        p = self.parts[-1]
        if isinstance(p, str):
            if len(p) >= k:
                return SStr(self.parts[:-1] + [p[:-k]]), SStr([p[-k:]])
            a, b = SStr(self.parts[:-1]).tail(k - len(p))
            return a, b + p
        if p.lang.not_subset_witness(lit_lang('')) is None:
            return SStr(self.parts[:-1]).tail(k)
        if k != 1:
            raise Undecided('suffix of length %d of %r' % (k, p))
        if not p.lang.intersect(lit_lang('')).is_empty():
            raise _und(p, L('(?s:.+)'), 'last character of the possibly empty piece %r' % (p,))
        one = SStr([p])
        return SStr(self.parts[:-1] + [Fn('init', one, _init_lang(p.lang))]), SStr([Fn('last', one, _last_lang(p.lang))])

    def subscript(self, key):
        if isinstance(key, int):
            if key == 0:
                return self.head(1)[0]          # the first character itself (a one-character piece)
            if key == -1:
                return self.tail(1)[1]
            if key >= 0:
                a, _b = self.head(key + 1)
                _x, ch = a.tail(1)
                return ch
            _a, b = self.tail(-key)
            ch, _y = b.head(1)
            return ch
        if isinstance(key, slice) and key.step is None:
            lo, hi = key.start, key.stop
            cur = self
            if isinstance(lo, int) and 0 < lo <= 2 and isinstance(hi, SInt):
                # s[k:n]: drop the first k characters, then cut at n - k
                rest = cur
                for _ in range(lo):
                    rest = rest.head(1)[1]
                return rest._slice_sym(None, hi - lo)
            if isinstance(lo, SInt) or isinstance(hi, SInt):
                return self._slice_sym(lo, hi)
            if lo is not None and lo < 0 and hi is None:
                return cur.tail(-lo)[1]
            if hi is not None and hi < 0:
                cur = cur.tail(-hi)[0]
                hi = None
            if lo is not None and lo > 0:
                if hi is not None:
                    hi -= lo
                cur = cur.head(lo)[1]
            elif lo is not None and lo < 0:
                raise Undecided('slice %r' % (key,))
            if hi is not None:
                try:
                    cur = cur.head(hi)[0]
                except KeyError:
                    pass
            return cur
        raise Undecided('subscript %r' % (key,))

    def _slice_sym(self, lo, hi):
        """slices whose bounds are lengths of leading pieces (as produced by find/index/len)"""
        def cut_at(n):
            if n is None:
                return None
            if isinstance(n, int):
                n = SInt(n)
            acc = SInt()
            for i in range(len(self.parts) + 1):
                d = (n - acc).sign()
                if d == '0':
                    return i, None
                if i < len(self.parts):
                    p = self.parts[i]
                    if isinstance(p, str):
                        rem = n - acc
                        if not rem.terms and 0 < rem.const < len(p):
                            return i, rem.const
                        acc = acc + len(p)
                    else:
                        acc = acc + self._piece_len(p)
            raise Undecided('slice bound %r does not fall on a piece boundary of %r' % (n, self))

        def split_at(pos):
            i, off = pos
            if off is None:
                return self.parts[:i], self.parts[i:]
            p = self.parts[i]
            return self.parts[:i] + [p[:off]], [p[off:]] + self.parts[i + 1:]
        if hi is None:
            left, right = ([], self.parts) if lo is None else split_at(cut_at(lo))
            return SStr(right)
        # s[lo:hi] = (s[:hi])[lo:]  (both cuts may fall inside one literal piece)
        l2, _r2 = split_at(cut_at(hi))
        prefix = SStr(l2)
        if lo is None:
            return prefix
        d = ((hi if isinstance(hi, SInt) else SInt(hi)) - (lo if isinstance(lo, SInt) else SInt(lo))).sign()
        if d in ('-', '<=0', '0'):
            return SStr()
        return prefix._slice_sym(lo, None)


def _und(piece, lang_true, msg):
    """Undecided with the refinement hint "does the piece lie in lang_true?" when the piece depends on one atom"""
    a_, sp = SStr([piece])._preimage(lang_true)
    return Undecided(msg, a_, sp)


def regex_chars(pattern, flags=0):
    """characters (of the symbolic alphabet) that can occur inside a match of the pattern"""
    a = alpha()
    tree = rx.parse(pattern, flags)
    mask = [0]

    def walk(seq):
        for op, av in seq:
            ops = str(op)
            if ops in ('LITERAL', 'NOT_LITERAL', 'ANY', 'IN'):
                mask[0] |= a.leaf((op, av), flags)
            elif ops == 'SUBPATTERN':
                walk(av[3])
            elif ops == 'BRANCH':
                for alt in av[1]:
                    walk(alt)
            elif ops in ('MAX_REPEAT', 'MIN_REPEAT'):
                walk(av[2])
            elif ops == 'AT':
                pass
            else:
                raise Undecided('regex construct %s' % ops)
    walk(tree)
    return mask[0]


def regex_split(pattern, flags, s, maxsplit=0):
    """re.split on a symbolic string: the matches must lie inside literal pieces; the other pieces must be free of
    every character a match can contain (so that no match starts, ends or lies in them)"""
    s = lift(s)
    a = alpha()
    mask = regex_chars(pattern, flags)
    if re.compile(pattern, flags).groups:
        raise Undecided('split with capturing groups')
    bad = rx.from_function(a, [], 0, lambda q, sym: 1 if (q == 1 or mask >> sym & 1) else 0, lambda q: q == 1)
    out, cur = [], []
    cre = re.compile(pattern, flags)
    n = 0
    for p in s.parts:
        if isinstance(p, str):
            pos = 0
            for m in cre.finditer(p):
                if m.end() == m.start():
                    continue
                if maxsplit and n >= maxsplit:
                    break
                cur.append(p[pos:m.start()])
                out.append(SStr(cur))
                cur = []
                pos = m.end()
                n += 1
            cur.append(p[pos:])
        else:
            if not p.lang.intersect(bad).is_empty():
                raise _und(p, bad, 'the piece %r may contain a character of the separator pattern %r' % (p, pattern))
            cur.append(p)
    out.append(SStr(cur))
    return out


def regex_test(pattern, flags, mode, s):
    """does the regex match (search / match / fullmatch) the symbolic string?  True / False / Undecided"""
    s = lift(s)
    lang = rx.regex_lang(pattern, flags, mode, alpha=alpha())
    return s._decide(lang, '%s of %r' % (mode, pattern))


def explore(atoms, body, depth=8):
    """run body(atoms) (atoms: dict name -> SStr of one Atom); whenever a decision is Undecided because of one atom, the
    case is split on that atom's language and both sub-cases are run.  -> [(dict name -> Lang, result)]"""
    out = []

    def go(langs, d):
        cur = {n: atom(n, l_) for n, l_ in langs.items()}
        try:
            _exploring[0] += 1
            try:
                r_ = body(cur)
            finally:
                _exploring[0] -= 1
            out.append((dict(langs), r_))
            return
        except Undecided as u:
            if u.atom is None or u.atom.name not in langs or d <= 0:
                raise
            name = u.atom.name
            yes = langs[name].intersect(u.split)
            no = langs[name].minus(u.split)
            if yes.is_empty() or no.is_empty():
                raise
        for sub in (yes, no):
            l2 = dict(langs)
            l2[name] = sub
            go(l2, d - 1)
    go({n: (v if isinstance(v, rx.Lang) else L(v)) for n, v in atoms.items()}, depth)
    return out


def lift(v):
    if isinstance(v, SStr):
        return v
    if isinstance(v, str):
        return SStr([v])
    if isinstance(v, (Atom, Fn)):
        return SStr([v])
    raise Undecided('not a string: %r' % (v,))


def atom(name, pattern_or_lang):
    lang = pattern_or_lang if isinstance(pattern_or_lang, rx.Lang) else L(pattern_or_lang)
    return SStr([Atom(name, lang)])


# -- language helpers ---------------------------------------------------------------------------

def _lstrip_lang(lang, chars):
    a = lang.alpha
    cs = {a.idx[c] for c in chars if c in a.idx}
    # states reachable from the start by characters of the set
    starts = {0}
    todo = [0]
    while todo:
        q = todo.pop()
        for c in cs:
            n = lang.trans[q][c]
            if n not in starts:
                starts.add(n)
                todo.append(n)

    def step(S, sym):
        first, qs = S
        if first and sym in cs:
            return (False, frozenset())
        return (False, frozenset(lang.trans[q][sym] for q in qs))
    return rx.from_function(a, [], (True, frozenset(starts)), step, lambda S: any(lang.acc[q] for q in S[1]),
                            rx.split_classes(lang.classes(), [1 << c for c in cs]))


def _rev_lang(lang):
    """reversal of a language (only used to scan from the right)"""
    a = lang.alpha
    n = len(lang.trans)
    rev = [[set() for _ in range(a.n)] for _ in range(n)]
    for q, row in enumerate(lang.trans):
        for s_ in range(a.n):
            rev[row[s_]][s_].add(q)
    start = frozenset(q for q in range(n) if lang.acc[q])

    def step(S, sym):
        out = set()
        for q in S:
            out |= rev[q][sym]
        return frozenset(out)
    return rx.from_function(a, [], start, step, lambda S: 0 in S, lang.classes())


def _case_lang(lang, fn):
    a = lang.alpha
    # image under a per-character map that stays inside the symbolic alphabet; other characters keep their class
    def step(S, sym):
        ch = a.syms[sym]
        out = set()
        for i, c in enumerate(a.syms):
            if isinstance(c, str) and len(c) == 1 and fn(c) == ch:
                for q in S:
                    out.add(lang.trans[q][i])
        return frozenset(out)
    return rx.from_function(a, [], frozenset({0}), step, lambda S: any(lang.acc[q] for q in S))


def _first_lang(lang):
    a = lang.alpha
    co = rx._coacc(lang)
    ok = {s for s in range(a.n) if lang.trans[0][s] in co}
    return rx.from_function(a, [], 0, lambda q, s: 1 if (q == 0 and s in ok) else 2, lambda q: q == 1)


def _rest_lang(lang):
    a = lang.alpha
    starts = frozenset(lang.trans[0][s] for s in range(a.n))
    return rx.from_function(a, [], starts, lambda S, s: frozenset(lang.trans[q][s] for q in S), lambda S: any(lang.acc[q] for q in S), lang.classes())


def _last_lang(lang):
    a = lang.alpha
    reach = rx._reach(lang)
    ok = {s for s in range(a.n) if any(lang.acc[lang.trans[q][s]] for q in reach)}
    return rx.from_function(a, [], 0, lambda q, s: 1 if (q == 0 and s in ok) else 2, lambda q: q == 1)


def _init_lang(lang):
    a = lang.alpha
    pre = {q for q in range(len(lang.trans)) if any(lang.acc[lang.trans[q][s]] for s in range(a.n))}
    return rx.Lang(lang.trans, [q in pre for q in range(len(lang.trans))], a, [])

#!/venv/bin/python
"""Regenerates /verif/MANIFEST.json from the per-property metadata in sa/rules/*.py (META dicts)."""
import importlib
import json
import os
import sys

sys.path.insert(0, os.path.dirname(os.path.dirname(os.path.abspath(__file__))))
VERIF = os.path.dirname(os.path.dirname(os.path.abspath(__file__)))
PROPS = ['C%02d' % i for i in range(1, 21)]
PY = '/venv/bin/python'
BASELINE_CMD = ('cd /repo && /venv/bin/python -m pytest -ra -q -p no:cacheprovider --timeout=900 '
                '--continue-on-collection-errors')


def main():
    checks, na = [], []
    for p in PROPS:
        try:
            mod = importlib.import_module('sa.rules.' + p)
            meta = mod.META
        except (ImportError, AttributeError):
            na.append({'property_id': p, 'reason': 'rules for this property are not built yet (static analysis only; '
                                                   'no other technique is substituted)'})
            continue
        if meta.get('not_applicable'):
            na.append({'property_id': p, 'reason': meta['not_applicable']})
            continue
        checks.append({
            'property_id': p,
            'quick_cmd': '%s /verif/sa/run.py --property %s --tier quick' % (PY, p),
            'thorough_cmd': '%s /verif/sa/run.py --property %s --tier thorough' % (PY, p),
            'evidence_file': '/verif/evidence/%s.json' % p,
            'replay_cmd_template': '%s /verif/sa/run.py --replay {path}' % PY,
            'engine': 'sa',
            'level_claimed': {'category': 'other', 'text': meta['level_text'], 'design_ref': meta['design_ref']},
            'level_note': meta['level_note'],
            'technique': meta['technique'],
        })
    man = {
        'version': 1,
        'setup_cmd': '%s -m compileall -q /verif/sa' % PY,
        'hooks': {
            'guard': 'PYDEBIAN_VERIF',
            'enable': 'none needed: the checks read the source tree of /repo and never run it; '
                      'no instrumentation exists in /repo',
            'baseline_off_cmd': BASELINE_CMD,
            'source_commits': [],
            'add_only': True,
        },
        'engines': [{
            'name': 'sa', 'path': '/verif/sa', 'serves_properties': [c['property_id'] for c in checks],
            'kind_free_text': 'custom static analysis of the Python sources: AST/CFG dataflow and path rules, '
                              'regular-language decision procedures over the regex literals found in the source, '
                              'writer-template extraction, typestate / conservation / shape-case abstract '
                              'interpretation; no code of /repo is executed',
        }],
        'checks': checks,
        'not_applicable': na,
        'notes': 'All checks: exit 0 = all rule instances hold (known findings are printed as KNOWN-FINDING lines), '
                 'exit 1 = VIOLATION line(s), exit 2 = ANALYSIS-ERROR (the analyser cannot apply a rule to the '
                 'current shape of the code; never a silent pass).  VERIF_SEED is recorded and ignored (nothing is '
                 'random).  See DESIGN.md.',
    }
    with open(os.path.join(VERIF, 'MANIFEST.json'), 'w', encoding='utf-8') as f:
        json.dump(man, f, indent=1)
        f.write('\n')
    print('claimed:', [c['property_id'] for c in checks])
    print('not applicable / not built:', [n['property_id'] for n in na])


if __name__ == '__main__':
    main()

"""Semantics-preserving normalisation of a function's syntax tree, applied before rules that would
otherwise depend on how the code happens to be factored:

  inline_helpers      calls to small helpers (closures of the same function, methods of the same class
                      reached through self/cls/ClassName, functions of the same module) are replaced by
                      their bodies (locals renamed, tail returns turned into the assignment / return of
                      the call site); expression-bodied helpers and lambdas are substituted in place
  propagate_aliases   locals bound once to a name, a self-attribute, a constant or a pure expression over
                      such are substituted into their uses when nothing they read is stored in between
  sentinel_loops      the three spellings of "call a producer until it returns the sentinel"

Everything works on copies; the module's own trees are never modified.  Whenever a precondition of a
rewrite cannot be established the rewrite is simply not performed (the consumer then sees the original
shape and decides itself whether it can cope)."""
import ast
import copy
import itertools

from .core import clone, norm, walk_no_nested

_counter = itertools.count(1)


# ---------------------------------------------------------------------------------------------
# helpers

def _stores(node):
    """texts of names / attributes stored anywhere in node (nested defs excluded)"""
    out = set()
    for n in [node] + list(walk_no_nested(node)):
        if isinstance(n, (ast.Name, ast.Attribute, ast.Subscript)) and isinstance(getattr(n, 'ctx', None), (ast.Store, ast.Del)):
            out.add(norm(n))
            if isinstance(n, ast.Subscript):
                out.add(norm(n.value))
    return out


def _assigned_names(fnode):
    out = {}
    for n in walk_no_nested(fnode):
        if isinstance(n, ast.Name) and isinstance(n.ctx, (ast.Store, ast.Del)):
            out[n.id] = out.get(n.id, 0) + 1
        elif isinstance(n, (ast.FunctionDef, ast.AsyncFunctionDef, ast.ClassDef)):
            out[n.name] = out.get(n.name, 0) + 1
    return out


def _terminates(stmts):
    """every path through stmts ends in return / raise / continue / break"""
    if not stmts:
        return False
    last = stmts[-1]
    if isinstance(last, (ast.Return, ast.Raise)):
        return True
    if isinstance(last, ast.If):
        return _terminates(last.body) and _terminates(last.orelse)
    if isinstance(last, ast.With):
        return _terminates(last.body)
    return False


def tailify(stmts):
    """`if c: ...return` followed by more statements -> the rest moves into the else branch, so that every
    return ends up in tail position when the function has only guard-style early exits"""
    out = []
    for i, st in enumerate(stmts):
        if isinstance(st, ast.If):
            st = copy.copy(st)
            st.body = tailify(st.body)
            st.orelse = tailify(st.orelse)
            rest = stmts[i + 1:]
            if rest and _has_return(st):
                if _terminates(st.body) and not st.orelse:
                    st.orelse = tailify(rest)
                    out.append(st)
                    return out
                if st.orelse and _terminates(st.orelse) and not _terminates(st.body):
                    st.body = st.body + tailify(rest)
                    out.append(st)
                    return out
                if st.orelse and _terminates(st.body) and not _terminates(st.orelse):
                    st.orelse = st.orelse + tailify(rest)
                    out.append(st)
                    return out
                if len(rest) <= 3 and _terminates(rest) and not any(isinstance(n, (ast.For, ast.While, ast.Try)) for r_ in rest for n in ast.walk(r_)):
                    # a return somewhere inside the branches, and a short terminating rest (`raise ...`): the rest follows every
                    # branch end that falls through
                    trest = tailify(rest)

                    def push(block):
                        if _terminates(block):
                            return block
                        if block and isinstance(block[-1], ast.If):
                            last = copy.copy(block[-1])
                            last.body = push(last.body)
                            last.orelse = push(last.orelse)
                            return block[:-1] + [last]
                        return block + [clone(r_) for r_ in trest]
                    st.body = push(st.body)
                    st.orelse = push(st.orelse)
                    out.append(st)
                    return out
        elif isinstance(st, ast.With):
            st = copy.copy(st)
            st.body = tailify(st.body)
        elif isinstance(st, ast.Try) and not st.orelse and not st.finalbody and _has_return(st):
            rest = stmts[i + 1:]
            # try: ...  except E: return A   followed by `return <constant or name>`: evaluating that return raises nothing, so it may
            # stand at the end of the try body (and of the handlers that fall through) as well
            if len(rest) == 1 and isinstance(rest[0], ast.Return) and (rest[0].value is None or isinstance(rest[0].value, (ast.Constant, ast.Name))):
                st = copy.copy(st)
                st.body = tailify(st.body)
                if not _terminates(st.body):
                    st.body = st.body + [clone(rest[0])]
                hs = []
                for h in st.handlers:
                    h = copy.copy(h)
                    h.body = tailify(h.body)
                    if not _terminates(h.body):
                        h.body = h.body + [clone(rest[0])]
                    hs.append(h)
                st.handlers = hs
                out.append(st)
                return out
        out.append(st)
    return out


def _has_return(node):
    return any(isinstance(n, ast.Return) for n in [node] + list(walk_no_nested(node)))


def _returns_only_in_tail(stmts):
    """all Return nodes of stmts are in tail position"""
    for i, st in enumerate(stmts):
        last = i == len(stmts) - 1
        if isinstance(st, ast.Return):
            if not last:
                return False
        elif isinstance(st, ast.If):
            if last:
                if not (_returns_only_in_tail(st.body) and _returns_only_in_tail(st.orelse)):
                    return False
            elif _has_return(st):
                return False
        elif isinstance(st, ast.With) and last:
            if not _returns_only_in_tail(st.body):
                return False
        elif isinstance(st, ast.Try) and last and not st.orelse and not st.finalbody:
            # try: ...; return A  except E: return B -- the value is computed inside the try either way
            if not (_returns_only_in_tail(st.body) and all(_returns_only_in_tail(h.body) for h in st.handlers)):
                return False
        elif _has_return(st):
            return False
    return True


def _replace_tail_returns(stmts, make):
    """make(value_or_None) -> list of statements replacing a tail `return value`; falls off the end -> make(None)"""
    if not stmts:
        return make(None)
    out = list(stmts[:-1])
    last = stmts[-1]
    if isinstance(last, ast.Return):
        out.extend(make(last.value))
    elif isinstance(last, ast.If):
        last = copy.copy(last)
        last.body = _replace_tail_returns(last.body, make)
        last.orelse = _replace_tail_returns(last.orelse, make) if (last.orelse or _has_return(last)) else last.orelse
        out.append(last)
    elif isinstance(last, ast.With):
        last = copy.copy(last)
        last.body = _replace_tail_returns(last.body, make)
        out.append(last)
    elif isinstance(last, ast.Try) and not last.orelse and not last.finalbody and _has_return(last):
        last = copy.copy(last)
        last.body = _replace_tail_returns(last.body, make)
        hs = []
        for h in last.handlers:
            h = copy.copy(h)
            h.body = _replace_tail_returns(h.body, make)
            hs.append(h)
        last.handlers = hs
        out.append(last)
    elif isinstance(last, ast.Raise):
        out.append(last)
    else:
        out.append(last)
        out.extend(make(None))
    return out


class _Rename(ast.NodeTransformer):
    def __init__(self, names, exprs):
        self.names = names      # local name -> new name
        self.exprs = exprs      # parameter name -> ast expression substituted for loads

    def visit_Name(self, n):
        if n.id in self.exprs and isinstance(n.ctx, ast.Load):
            return clone(self.exprs[n.id])
        if n.id in self.names:
            return ast.copy_location(ast.Name(id=self.names[n.id], ctx=n.ctx), n)
        return n

    def visit_FunctionDef(self, n):
        return n      # nested definitions keep their own scope (free variables of ours are not renamed inside; such helpers are not inlined)

    def visit_Lambda(self, n):
        # the free names of a lambda are names of the enclosing scope: substituted / renamed, except where its parameters shadow them
        own = {a.arg for a in n.args.args + n.args.kwonlyargs + getattr(n.args, 'posonlyargs', [])}
        if n.args.vararg or n.args.kwarg:
            return n
        inner = _Rename({k: v for k, v in self.names.items() if k not in own}, {k: v for k, v in self.exprs.items() if k not in own})
        n = copy.copy(n)
        n.body = inner.visit(n.body)
        return n


def _simple_arg(e):
    return isinstance(e, (ast.Name, ast.Constant)) or (isinstance(e, ast.Attribute) and _simple_arg(e.value))


# ---------------------------------------------------------------------------------------------
# inlining

def _def_as_lambda(fd):
    """`def g(a, b): [docstring] return E` (plain positional parameters, no decorators) as `lambda a, b: E`, else None"""
    a = fd.args
    if fd.decorator_list or a.vararg or a.kwarg or a.kwonlyargs or a.defaults or getattr(a, 'posonlyargs', None):
        return None
    body = [s for s in fd.body if not (isinstance(s, ast.Expr) and isinstance(s.value, ast.Constant))]
    if len(body) != 1 or not isinstance(body[0], ast.Return) or body[0].value is None:
        return None
    if any(isinstance(n, (ast.Yield, ast.YieldFrom, ast.Await, ast.Lambda, ast.FunctionDef)) for n in ast.walk(body[0].value)):
        return None
    return ast.copy_location(ast.Lambda(args=ast.arguments(posonlyargs=[], args=[ast.arg(arg=x.arg) for x in a.args], vararg=None, kwonlyargs=[], kw_defaults=[],
                                                           kwarg=None, defaults=[]), body=body[0].value), fd)


class Inliner:
    def __init__(self, func, src=None, depth=2, only=None, skip=()):
        self.func = func
        self.module = func.module
        self.depth = depth
        self.only = only
        self.skip = set(skip)
        self.inlined = []     # qualnames of helpers that were inlined (for the evidence)
        self.local_nodes = [n for n in walk_no_nested(func.node) if isinstance(n, ast.FunctionDef)]

    # -- callee resolution
    def resolve(self, call, local_defs):
        f = call.func
        if isinstance(f, ast.Name):
            if f.id in local_defs:
                return local_defs[f.id], None
            fn = self.module.funcs.get(f.id)
            if fn is not None and fn.cls is None:
                return fn.node, None
            return None, None
        if isinstance(f, ast.Attribute) and isinstance(f.value, ast.Name) and self.func.cls:
            if f.value.id in ('self', 'cls') or f.value.id in self.module.classes:
                cname = self.func.cls if f.value.id in ('self', 'cls') else f.value.id
                fn = self.module.method(cname, f.attr)
                if fn is not None:
                    return fn.node, f.value
        return None, None

    def eligible(self, h):
        if h is self.func.node or h.name in self.skip or (self.only is not None and h.name not in self.only):
            return False
        if self.only is None and not isinstance(h, ast.Lambda) and h not in self.local_nodes \
                and (not h.name.startswith('_') or (h.name.startswith('__') and h.name.endswith('__'))):
            return False       # public API of the class/module keeps its identity
        a = h.args
        if a.vararg or a.kwarg or a.kwonlyargs:
            return False
        for d in h.decorator_list:
            if norm(d) not in ('staticmethod', 'classmethod'):
                return False
        for n in walk_no_nested(h):
            if isinstance(n, (ast.Yield, ast.YieldFrom, ast.Await, ast.Global, ast.Nonlocal)):
                return False
            if isinstance(n, ast.FunctionDef) and n in h.body and _def_as_lambda(n) is not None:
                continue        # a local one-expression function: read as the lambda it is (see expr_body)
            if isinstance(n, (ast.FunctionDef, ast.Lambda, ast.ClassDef)):
                return False
            if isinstance(n, ast.Call) and isinstance(n.func, ast.Name) and n.func.id == h.name:
                return False
        return True

    def bind(self, h, call, recv):
        """(prelude statements, _Rename) or None"""
        a = h.args
        params = [x.arg for x in a.posonlyargs + a.args]
        decos = [norm(d) for d in h.decorator_list]
        is_method = recv is not None or (params and params[0] in ('self', 'cls') and isinstance(call.func, ast.Attribute))
        exprs = {}
        if is_method and 'staticmethod' not in decos:
            if not params:
                return None
            first = params.pop(0)
            exprs[first] = recv if recv is not None else ast.Name(id=first, ctx=ast.Load())
            if isinstance(recv, ast.Name) and recv.id in self.module.classes and 'classmethod' not in decos:
                # Class.method(obj, ...) : the first argument is the receiver
                if not call.args:
                    return None
                exprs[first] = call.args[0]
                call = copy.copy(call)
                call.args = call.args[1:]
        if len(call.args) > len(params) or any(isinstance(x, ast.Starred) for x in call.args) or any(k.arg is None for k in call.keywords):
            return None
        given = dict(zip(params, call.args))
        for k in call.keywords:
            if k.arg not in params or k.arg in given:
                return None
            given[k.arg] = k.value
        defaults = dict(zip(params[len(params) - len(a.defaults):], a.defaults)) if a.defaults else {}
        k = next(_counter)
        assigned = _assigned_names(h)
        names, prelude = {}, []
        for p in params:
            v = given.get(p, defaults.get(p))
            if v is None:
                return None
            if _simple_arg(v) and p not in assigned:
                exprs[p] = v
            else:
                names[p] = '_i%d_%s' % (k, p)
                prelude.append(ast.Assign(targets=[ast.Name(id=names[p], ctx=ast.Store())], value=clone(v), lineno=call.lineno, col_offset=0))
        for loc in assigned:
            if loc not in names and loc not in exprs:
                names[loc] = '_i%d_%s' % (k, loc)
        return prelude, _Rename(names, exprs)

    def body_of(self, h, call, recv, make):
        if not self.eligible(h):
            return None
        body = [s for s in h.body if not (isinstance(s, ast.Expr) and isinstance(s.value, ast.Constant) and isinstance(s.value.value, str))]
        body = tailify(clone(body))
        if not _returns_only_in_tail(body):
            return None
        b = self.bind(h, call, recv)
        if b is None:
            return None
        prelude, ren = b
        body = [ren.visit(s) for s in body]
        body = _replace_tail_returns(body, make)
        for s in prelude + body:
            ast.fix_missing_locations(s)
        self.inlined.append(h.name)
        return prelude + body

    def expr_body(self, h):
        """the expression of an expression-bodied helper / lambda, or None"""
        if isinstance(h, ast.Lambda):
            return h.body
        body = [s for s in h.body if not (isinstance(s, ast.Expr) and isinstance(s.value, ast.Constant))]
        if len(body) == 1 and isinstance(body[0], ast.Return) and body[0].value is not None:
            return body[0].value
        # locals bound once to a value without side effects, then `return E`: E with the locals substituted
        if len(body) > 1 and isinstance(body[-1], ast.Return) and body[-1].value is not None and len(body) <= 6:
            params = {x.arg for x in h.args.args}
            binding = {}
            for st in body[:-1]:
                if isinstance(st, ast.FunctionDef) and st.name not in binding and st.name not in params and _def_as_lambda(st) is not None:
                    lam = _def_as_lambda(st)
                    own = {x.arg for x in lam.args.args}
                    lam.body = _Rename({}, {k: v for k, v in binding.items() if k not in own}).visit(clone(lam.body))
                    binding[st.name] = lam
                    continue
                if not (isinstance(st, ast.Assign) and len(st.targets) == 1 and isinstance(st.targets[0], ast.Name) and st.targets[0].id not in binding
                        and st.targets[0].id not in params and _reads_only(st.value)):
                    return None
                binding[st.targets[0].id] = _Rename({}, dict(binding)).visit(clone(st.value))
            # (a comprehension in E must not re-bind one of the locals)
            if any(isinstance(n, ast.Name) and isinstance(n.ctx, ast.Store) and n.id in binding for n in ast.walk(body[-1].value)):
                return None
            return _Rename({}, binding).visit(clone(body[-1].value))
        return None

    # -- statement rewriting
    def stmts(self, body, local_defs, depth):
        out = []
        local_defs = dict(local_defs)
        for st in body:
            if isinstance(st, (ast.FunctionDef, ast.AsyncFunctionDef)):
                local_defs[st.name] = st
                out.append(st)
                continue
            if isinstance(st, ast.Assign) and len(st.targets) == 1 and isinstance(st.targets[0], ast.Name) and isinstance(st.value, ast.Lambda):
                local_defs[st.targets[0].id] = st.value
            rep = self.try_statement(st, local_defs, depth)
            if rep is not None:
                out.extend(rep)
                continue
            # `if [not] helper(args): ...` with a helper of several statements: its result is first bound to a fresh local (which the
            # statement inliner then replaces by the helper's body; fold_flag_branches moves the branches to where the result is decided)
            if isinstance(st, ast.If) and depth > 0:
                t_ = st.test.operand if isinstance(st.test, ast.UnaryOp) and isinstance(st.test.op, ast.Not) else st.test
                if isinstance(t_, ast.Call):
                    h_, _recv = self.resolve(t_, local_defs)
                    if h_ is not None and not isinstance(h_, ast.Lambda) and self.expr_body(h_) is None and self.eligible(h_):
                        tmp = '_t%d' % next(_counter)
                        asg = ast.copy_location(ast.Assign(targets=[ast.Name(id=tmp, ctx=ast.Store())], value=t_), st)
                        rep = self.try_statement(asg, local_defs, depth)
                        if rep is not None:
                            st = copy.copy(st)
                            nm = ast.copy_location(ast.Name(id=tmp, ctx=ast.Load()), t_)
                            st.test = ast.copy_location(ast.UnaryOp(op=ast.Not(), operand=nm), st.test) if t_ is not st.test else nm
                            out.extend(rep)
            rep = self.try_generator_loop(st, local_defs, depth)
            if rep is not None:
                out.extend(rep)
                continue
            st = self.subst_expr_helpers(st, local_defs)
            for fld in ('body', 'orelse', 'finalbody'):
                if isinstance(getattr(st, fld, None), list) and not isinstance(st, (ast.FunctionDef, ast.ClassDef)):
                    setattr(st, fld, self.stmts(getattr(st, fld), local_defs, depth))
            for h in getattr(st, 'handlers', []) or []:
                h.body = self.stmts(h.body, local_defs, depth)
            out.append(st)
        return out

    def try_generator_loop(self, st, local_defs, depth):
        """`for T in self._gen(args): BODY` with a private generator helper: the generator's body with every `yield v` replaced
        by `T = v; BODY` (generator fusion).  Only when BODY cannot leave the loop early and the generator has no return/yield from."""
        if depth <= 0 or not isinstance(st, ast.For) or st.orelse or not isinstance(st.iter, ast.Call):
            return None
        h, recv = self.resolve(st.iter, local_defs)
        if h is None or isinstance(h, ast.Lambda):
            return None
        if h is self.func.node or h.name in self.skip or (self.only is not None and h.name not in self.only):
            return None
        if self.only is None and h not in self.local_nodes and (not h.name.startswith('_') or (h.name.startswith('__') and h.name.endswith('__'))):
            return None
        a = h.args
        if a.vararg or a.kwarg or a.kwonlyargs or any(norm(d) not in ('staticmethod', 'classmethod') for d in h.decorator_list):
            return None
        ys = [n for n in walk_no_nested(h) if isinstance(n, ast.Yield)]
        if not ys or any(isinstance(n, (ast.YieldFrom, ast.Return, ast.Await, ast.Global, ast.Nonlocal, ast.FunctionDef, ast.Lambda, ast.ClassDef)) for n in walk_no_nested(h)):
            return None
        # every yield is a statement of its own with a value
        ystmts = [n for n in walk_no_nested(h) if isinstance(n, ast.Expr) and isinstance(n.value, ast.Yield) and n.value.value is not None]
        if len(ystmts) != len(ys):
            return None
        if any(isinstance(n, (ast.Break, ast.Continue, ast.Yield, ast.YieldFrom)) for b in st.body for n in ast.walk(b)):       # (a return leaves the caller either way)
            return None
        b = self.bind(h, st.iter, recv)
        if b is None:
            return None
        prelude, ren = b
        body = [s_ for s_ in clone(h.body) if not (isinstance(s_, ast.Expr) and isinstance(s_.value, ast.Constant) and isinstance(s_.value.value, str))]
        body = [ren.visit(s_) for s_ in body]
        target, loop_body = st.target, st.body

        def repl(stmts):
            out = []
            for s_ in stmts:
                if isinstance(s_, ast.Expr) and isinstance(s_.value, ast.Yield):
                    out.append(ast.copy_location(ast.Assign(targets=[clone(target)], value=s_.value.value), s_))
                    out.extend(clone(loop_body))
                    continue
                for fld in ('body', 'orelse', 'finalbody'):
                    if isinstance(getattr(s_, fld, None), list):
                        setattr(s_, fld, repl(getattr(s_, fld)))
                for hd in getattr(s_, 'handlers', []) or []:
                    hd.body = repl(hd.body)
                out.append(s_)
            return out
        fused = prelude + repl(body)
        for s_ in fused:
            ast.fix_missing_locations(s_)
        self.inlined.append(h.name)
        return self.stmts(fused, local_defs, depth - 1)

    def try_statement(self, st, local_defs, depth):
        if depth <= 0:
            return None
        call = None
        if isinstance(st, ast.Assign) and len(st.targets) == 1 and isinstance(st.value, ast.Call):
            call = st.value
            tgt = st.targets[0]

            def make(v):
                return [ast.copy_location(ast.Assign(targets=[clone(tgt)], value=v if v is not None else ast.Constant(value=None)), st)]
        elif isinstance(st, ast.Expr) and isinstance(st.value, ast.Call):
            call = st.value

            def make(v):
                return [ast.copy_location(ast.Expr(value=v), st)] if isinstance(v, ast.Call) else []
        elif isinstance(st, ast.Return) and isinstance(st.value, ast.Call):
            call = st.value

            def make(v):
                return [ast.copy_location(ast.Return(value=v), st)]
        elif isinstance(st, ast.Expr) and isinstance(st.value, ast.Yield) and isinstance(st.value.value, ast.Call):
            # `yield helper(args)`: the helper's statements, then the yield of its result
            call = st.value.value

            def make(v):
                return [ast.copy_location(ast.Expr(value=ast.copy_location(ast.Yield(value=v if v is not None else ast.Constant(value=None)), st)), st)]
        if call is None:
            return None
        h, recv = self.resolve(call, local_defs)
        if h is None or isinstance(h, ast.Lambda):
            return None
        if self.expr_body(h) is not None:
            b = self.bind(h, call, recv)
            if b is None or not b[0]:
                return None     # handled by substitution
            # arguments that are not plain names: bound to fresh locals first (statement-level inlining)
        body = self.body_of(h, call, recv, make)
        if body is None:
            return None
        return self.stmts(body, local_defs, depth - 1)

    def subst_expr_helpers(self, st, local_defs):
        me = self

        class T(ast.NodeTransformer):
            def visit_Call(self, c):
                self.generic_visit(c)
                h, recv = me.resolve(c, local_defs)
                if h is None:
                    return c
                e = me.expr_body(h)
                if e is None:
                    return c
                if isinstance(h, ast.Lambda):
                    params = [x.arg for x in h.args.args]
                    if h.args.vararg or h.args.kwarg or h.args.kwonlyargs or len(params) != len(c.args) or c.keywords:
                        return c
                    if not all(_simple_arg(a) for a in c.args):
                        return c
                    return _Rename({}, dict(zip(params, c.args))).visit(clone(e))
                if not me.eligible(h):
                    return c
                b = me.bind(h, c, recv)
                if b is None or b[0]:
                    return c      # arguments that would need a prelude: leave the call alone
                me.inlined.append(h.name)
                return b[1].visit(clone(e))

            def visit_FunctionDef(self, n):
                return n

            def visit_Lambda(self, n):
                return n
        # only the statement's own expressions (compound statements: header only)
        if isinstance(st, (ast.If, ast.While)):
            st.test = T().visit(st.test)
        elif isinstance(st, ast.For):
            st.iter = T().visit(st.iter)
        elif isinstance(st, (ast.Try, ast.With, ast.FunctionDef, ast.ClassDef)):
            pass
        else:
            st = T().visit(st)
        return st

    def run(self):
        fn = clone(self.func.node)
        fn.body = self.stmts(fn.body, {}, self.depth)
        ast.fix_missing_locations(fn)
        return fn


def fold_flag_branches(fnode):
    """`<compound statement whose every falling-through end assigns flag = <constant>>` directly followed by `if [not] flag: A else: B`,
    the flag (an inliner temporary) used nowhere else: the branch the constant selects moves to each of those ends, the test and the
    assignments disappear.  (break / continue in A and B stay in the same loop; the compound statement is a try without else / finally,
    or an if.)"""
    fn = clone(fnode)
    counts = {}
    for n in ast.walk(fn):
        if isinstance(n, ast.Name):
            counts[n.id] = counts.get(n.id, 0) + 1

    def ends(st, flag):
        """the statement lists whose last statement is `flag = const`, for every end of st that falls through; None when some end
        does not end that way"""
        blocks = []
        if isinstance(st, ast.Try) and not st.orelse and not st.finalbody:
            blocks = [st.body] + [h.body for h in st.handlers]
        elif isinstance(st, ast.If) and st.orelse:
            blocks = [st.body, st.orelse]
        else:
            return None
        out = []
        for b in blocks:
            if _terminates(b):
                continue
            last = b[-1] if b else None
            if isinstance(last, ast.Assign) and len(last.targets) == 1 and norm(last.targets[0]) == flag and isinstance(last.value, ast.Constant):
                out.append(b)
            elif isinstance(last, (ast.Try, ast.If)):
                sub = ends(last, flag)
                if sub is None:
                    return None
                out.extend(sub)
            else:
                return None
        return out

    def rewrite(body):
        out = []
        i = 0
        while i < len(body):
            st = body[i]
            for fld in ('body', 'orelse', 'finalbody'):
                if isinstance(getattr(st, fld, None), list) and not isinstance(st, (ast.FunctionDef, ast.ClassDef)):
                    setattr(st, fld, rewrite(getattr(st, fld)))
            for h in getattr(st, 'handlers', []) or []:
                h.body = rewrite(h.body)
            nxt = body[i + 1] if i + 1 < len(body) else None
            if isinstance(nxt, ast.If):
                t = nxt.test
                neg = isinstance(t, ast.UnaryOp) and isinstance(t.op, ast.Not)
                nm = t.operand if neg else t
                if isinstance(nm, ast.Name) and nm.id.startswith('_t'):
                    flag = nm.id
                    blocks = ends(st, flag)
                    n_assign = len(blocks) if blocks else 0
                    if blocks and counts.get(flag) == n_assign + 1:
                        for fld in ('body', 'orelse'):
                            setattr(nxt, fld, rewrite(getattr(nxt, fld)))
                        for b in blocks:
                            val = bool(b[-1].value.value) != neg
                            chosen = nxt.body if val else nxt.orelse
                            b[-1:] = [clone(x) for x in chosen] or [ast.copy_location(ast.Pass(), b[-1])]
                        out.append(st)
                        i += 2
                        continue
            out.append(st)
            i += 1
        return out
    fn.body = rewrite(fn.body)
    ast.fix_missing_locations(fn)
    return fn


def inline_helpers(func, depth=2, only=None, skip=()):
    """(new FunctionDef, [names of inlined helpers])"""
    inl = Inliner(func, depth=depth, only=only, skip=skip)
    node = inl.run()
    if any(isinstance(n, ast.Name) and n.id.startswith('_t') and n.id[2:].isdigit() for n in ast.walk(node)):
        node = fold_flag_branches(node)
    return node, inl.inlined


# ---------------------------------------------------------------------------------------------
# alias / copy propagation

READ_ONLY_METHODS = {'group', 'groups', 'groupdict', 'strip', 'lstrip', 'rstrip', 'lower', 'upper', 'casefold', 'startswith', 'endswith', 'get', 'keys', 'items',
                     'values', 'find', 'rfind', 'count', 'isdigit', 'isspace', 'isalpha', 'isalnum', 'split', 'rsplit', 'splitlines', 'partition', 'rpartition',
                     'start', 'end', 'span', 'decode', 'encode', 'join', 'format', 'replace', 'match', 'search', 'fullmatch'}


def _reads_only(e):
    """an expression that only reads: names, attributes, constants, operators, subscripts, the read-only methods of str / Match /
    mappings and the conversions len / str / int / bool / tuple -- evaluating it twice gives the same value and changes nothing"""
    for n in ast.walk(e):
        if isinstance(n, ast.Call):
            if isinstance(n.func, ast.Attribute) and n.func.attr in READ_ONLY_METHODS:
                continue
            if isinstance(n.func, ast.Name) and n.func.id in ('len', 'str', 'int', 'bool', 'tuple', 'isinstance'):
                continue
            return False
        if isinstance(n, (ast.Yield, ast.YieldFrom, ast.Await, ast.NamedExpr, ast.Lambda, ast.ListComp, ast.SetComp, ast.DictComp, ast.GeneratorExp)):
            return False
    return True


def _pure(e, allow_calls=()):
    """expression without side effects that reads only names, attributes, constants"""
    for n in ast.walk(e):
        if isinstance(n, (ast.Call,)):
            if norm(n.func) in allow_calls:
                continue
            return False
        if isinstance(n, (ast.Yield, ast.YieldFrom, ast.Await, ast.NamedExpr, ast.Lambda, ast.ListComp, ast.SetComp, ast.DictComp, ast.GeneratorExp)):
            return False
    return True


def sink_branch_bound_calls(fnode):
    """`if C: ...; f = A.m  else: ...; f = B.n` followed by the statement `f(args)`, f used nowhere else: the call moves to the end of
    each branch as `A.m(args)` / `B.n(args)`.  A bound method taken and called at once is the direct call; the binding is the last
    statement of its branch, so nothing runs between taking and calling."""
    fn = clone(fnode)
    loads = {}
    for n in ast.walk(fn):
        if isinstance(n, ast.Name) and isinstance(n.ctx, ast.Load):
            loads[n.id] = loads.get(n.id, 0) + 1

    def leaves(st):
        out = [st.body]
        if len(st.orelse) == 1 and isinstance(st.orelse[0], ast.If):
            sub = leaves(st.orelse[0])
            return None if sub is None else out + sub
        if not st.orelse:
            return None
        return out + [st.orelse]

    def rewrite(body):
        out = []
        i = 0
        while i < len(body):
            st = body[i]
            for fld in ('body', 'orelse', 'finalbody'):
                if isinstance(getattr(st, fld, None), list) and not isinstance(st, (ast.FunctionDef, ast.ClassDef)):
                    setattr(st, fld, rewrite(getattr(st, fld)))
            for h in getattr(st, 'handlers', []) or []:
                h.body = rewrite(h.body)
            nxt = body[i + 1] if i + 1 < len(body) else None
            if isinstance(st, ast.If) and isinstance(nxt, ast.Expr) and isinstance(nxt.value, ast.Call) and isinstance(nxt.value.func, ast.Name):
                f = nxt.value.func.id
                lv = leaves(st)
                ok = lv is not None and loads.get(f) == 1 and not any(isinstance(n, ast.Name) and n.id == f for a in nxt.value.args for n in ast.walk(a))
                if ok:
                    for blk in lv:
                        last = blk[-1] if blk else None
                        if not (isinstance(last, ast.Assign) and len(last.targets) == 1 and norm(last.targets[0]) == f and isinstance(last.value, ast.Attribute)):
                            ok = False
                        elif any(isinstance(n, ast.Name) and n.id == f and isinstance(n.ctx, ast.Store) for s_ in blk[:-1] for n in ast.walk(s_)):
                            ok = False
                if ok:
                    for blk in lv:
                        last = blk[-1]
                        call = clone(nxt.value)
                        call.func = last.value
                        blk[-1] = ast.copy_location(ast.Expr(value=ast.copy_location(call, last)), last)
                    out.append(st)
                    i += 2
                    continue
            out.append(st)
            i += 1
        return out
    fn.body = rewrite(fn.body)
    ast.fix_missing_locations(fn)
    return fn


def propagate_aliases(fnode, allow_calls=('len',), only_simple=False, also_bool=False, in_loops=False, select=None, pure=None):
    """substitute locals that are bound exactly once (outside loops) to a pure expression whose inputs are
    not stored afterwards; returns a new FunctionDef and the dict of substituted names.  in_loops: a binding inside a loop is
    substituted too when every use lies after it in its own block (the same iteration).  select(name, value): which bindings to
    consider.  pure(value): what counts as free of effects (default: names, attributes, constants, the calls in allow_calls)."""
    fn = clone(fnode)
    counts = _assigned_names(fn)
    params = {a.arg for a in fn.args.posonlyargs + fn.args.args + fn.args.kwonlyargs}
    # statements in source order with loop depth
    order = []

    def visit(body, in_loop):
        for st in body:
            order.append((st, in_loop))
            inner = in_loop or isinstance(st, (ast.For, ast.While))
            for fld in ('body', 'orelse', 'finalbody'):
                if isinstance(getattr(st, fld, None), list) and not isinstance(st, (ast.FunctionDef, ast.ClassDef)):
                    visit(getattr(st, fld), inner)
            for h in getattr(st, 'handlers', []) or []:
                visit(h.body, inner)
    visit(fn.body, False)
    subst = {}
    for idx, (st, in_loop) in enumerate(order):
        if (in_loop and not in_loops) or not (isinstance(st, ast.Assign) and len(st.targets) == 1 and isinstance(st.targets[0], ast.Name)):
            continue
        name = st.targets[0].id
        if counts.get(name) != 1 or name in params:
            continue
        v = st.value
        if select is not None and not select(name, v):
            continue
        boolish = isinstance(v, (ast.Compare, ast.BoolOp)) or (isinstance(v, ast.UnaryOp) and isinstance(v.op, ast.Not))
        if only_simple and not _simple_arg(v) and not (also_bool and boolish):
            continue
        if not (pure(v) if pure is not None else _pure(v, allow_calls)):
            continue
        if in_loop and not _same_block_uses(fn, st, name):
            continue
        reads = {norm(n) for n in ast.walk(v) if isinstance(n, (ast.Name, ast.Attribute))}
        later_stores = set()
        for st2, _ in order[idx + 1:]:
            if isinstance(st2, (ast.If, ast.While, ast.For, ast.Try, ast.With)):
                # headers only; their bodies are listed separately
                hdr = [getattr(st2, 'test', None), getattr(st2, 'iter', None), getattr(st2, 'target', None)]
                for h in hdr:
                    if h is not None:
                        later_stores |= _stores(h)
                for it in getattr(st2, 'items', []) or []:
                    if it.optional_vars is not None:
                        later_stores |= _stores(it.optional_vars)
            else:
                later_stores |= _stores(st2)
        if reads & later_stores:
            continue
        # the binding must dominate its uses: require it to be a top-level statement of the function or
        # all uses to be inside the same block after it -- approximated by "no use before it in source order"
        used_before = False
        for st2, _ in order[:idx]:
            hdr_only = isinstance(st2, (ast.If, ast.While, ast.For, ast.Try, ast.With))
            nodes = []
            if hdr_only:
                for h in (getattr(st2, 'test', None), getattr(st2, 'iter', None)):
                    if h is not None:
                        nodes.extend(ast.walk(h))
            else:
                nodes = list(ast.walk(st2))
            if any(isinstance(n, ast.Name) and n.id == name for n in nodes):
                used_before = True
        if used_before:
            continue
        if st not in fn.body and not _same_block_uses(fn, st, name):
            continue
        subst[name] = v
    if not subst:
        return fn, {}
    # resolve chains
    changed = True
    while changed:
        changed = False
        for k, v in list(subst.items()):
            nv = _Rename({}, {n: e for n, e in subst.items() if n != k}).visit(clone(v))
            if norm(nv) != norm(v):
                subst[k] = nv
                changed = True

    class Drop(ast.NodeTransformer):
        def visit_Assign(self, n):
            if len(n.targets) == 1 and isinstance(n.targets[0], ast.Name) and n.targets[0].id in subst:
                return None
            return self.generic_visit(n)

        def visit_Name(self, n):
            if n.id in subst and isinstance(n.ctx, ast.Load):
                return clone(subst[n.id])
            return n

        def visit_FunctionDef(self, n):
            if n is fn:
                return self.generic_visit(n)
            # closures read the same (single-assignment) local: substitute there too
            return self.generic_visit(n)
    fn = Drop().visit(fn)
    _fill_empty_bodies(fn)
    ast.fix_missing_locations(fn)
    return fn, subst


def _same_block_uses(fn, st, name):
    """st is nested: accept when every use of name lies in the block that contains st (after it)"""
    def find(body):
        if st in body:
            return body
        for s in body:
            for fld in ('body', 'orelse', 'finalbody'):
                sub = getattr(s, fld, None)
                if isinstance(sub, list) and not isinstance(s, (ast.FunctionDef, ast.ClassDef)):
                    r = find(sub)
                    if r is not None:
                        return r
            for h in getattr(s, 'handlers', []) or []:
                r = find(h.body)
                if r is not None:
                    return r
        return None
    blk = find(fn.body)
    if blk is None:
        return False
    inside = set()
    for s in blk[blk.index(st) + 1:]:
        inside |= {id(n) for n in ast.walk(s)}
    for n in ast.walk(fn):
        if isinstance(n, ast.Name) and n.id == name and isinstance(n.ctx, ast.Load) and id(n) not in inside:
            return False
    return True


def _fill_empty_bodies(fn):
    for n in ast.walk(fn):
        for fld in ('body',):
            b = getattr(n, fld, None)
            if isinstance(b, list) and not b and isinstance(n, (ast.If, ast.For, ast.While, ast.With, ast.FunctionDef, ast.Try, ast.ExceptHandler)):
                n.body = [ast.Pass()]


# ---------------------------------------------------------------------------------------------
# idioms

class SentinelLoop:
    def __init__(self, node, var, producer, body, sentinel):
        self.node = node            # the For / While statement
        self.var = var              # loop variable name
        self.producer = producer    # ast.Call producing the next item
        self.body = body            # statements executed for each real item
        self.sentinel = sentinel    # 'None' / 'falsy'


def sentinel_loops(fnode):
    """loops of the form "x = produce(); stop when x is the sentinel; body":
         while True: x = P(); if not x / x is None: break; BODY
         for x in iter(P', None): BODY          (P' a closure / lambda / functools.partial wrapping the call)
         x = P(); while x [is not None]: BODY; x = P()
    """
    out = []
    local_defs = {}
    for st in walk_no_nested(fnode):
        if isinstance(st, ast.FunctionDef):
            local_defs[st.name] = st
        if isinstance(st, ast.Assign) and len(st.targets) == 1 and isinstance(st.targets[0], ast.Name) and isinstance(st.value, ast.Lambda):
            local_defs[st.targets[0].id] = st.value
        if isinstance(st, ast.Assign) and len(st.targets) == 1 and isinstance(st.targets[0], ast.Name) and isinstance(st.value, ast.Call) \
                and norm(st.value.func) in ('functools.partial', 'partial') and st.value.args:
            # P = functools.partial(f, args): bound once (a second binding of the name makes it unknown)
            local_defs[st.targets[0].id] = None if st.targets[0].id in local_defs else st.value

    def stop_test(t, var):
        s = norm(t)
        if s in ('not %s' % var,):
            return 'falsy'
        if s in ('%s is None' % var, '%s == None' % var):
            return 'None'
        return None

    def cont_test(t, var):
        s = norm(t)
        if s == var:
            return 'falsy'
        if s in ('%s is not None' % var, '%s != None' % var):
            return 'None'
        return None
    blocks = [fnode.body] + [getattr(n, f) for n in walk_no_nested(fnode) for f in ('body', 'orelse', 'finalbody')
                             if isinstance(getattr(n, f, None), list) and not isinstance(n, (ast.FunctionDef, ast.ClassDef))]
    for blk in blocks:
        for i, st in enumerate(blk):
            if isinstance(st, ast.While) and isinstance(st.test, ast.Constant) and st.test.value is True and len(st.body) >= 2:
                a, b = st.body[0], st.body[1]
                if isinstance(a, ast.Assign) and len(a.targets) == 1 and isinstance(a.targets[0], ast.Name) and isinstance(a.value, ast.Call) \
                        and isinstance(b, ast.If) and not b.orelse and len(b.body) == 1 and isinstance(b.body[0], ast.Break):
                    kind = stop_test(b.test, a.targets[0].id)
                    if kind:
                        out.append(SentinelLoop(st, a.targets[0].id, a.value, st.body[2:], kind))
            if isinstance(st, ast.For) and isinstance(st.target, ast.Name) and isinstance(st.iter, ast.Call) and norm(st.iter.func) == 'iter' \
                    and len(st.iter.args) == 2:
                p, sent = st.iter.args
                if isinstance(sent, ast.Constant) and sent.value is None:
                    call = None
                    if isinstance(p, ast.Name) and isinstance(local_defs.get(p.id), ast.Call):
                        p = local_defs[p.id]
                    if isinstance(p, ast.Name) and local_defs.get(p.id) is not None:
                        d = local_defs[p.id]
                        e = d.body if isinstance(d, ast.Lambda) else (
                            d.body[-1].value if d.body and isinstance(d.body[-1], ast.Return) and
                            all(isinstance(s, ast.Expr) and isinstance(s.value, ast.Constant) for s in d.body[:-1]) else None)
                        if isinstance(e, ast.Call):
                            call = e
                    elif isinstance(p, ast.Lambda) and isinstance(p.body, ast.Call):
                        call = p.body
                    elif isinstance(p, ast.Call) and norm(p.func) in ('functools.partial', 'partial') and p.args:
                        call = ast.Call(func=p.args[0], args=p.args[1:], keywords=p.keywords)
                        ast.copy_location(call, p)
                        ast.fix_missing_locations(call)
                    if call is not None:
                        out.append(SentinelLoop(st, st.target.id, call, st.body, 'None'))
            if isinstance(st, ast.While) and i > 0 and st.body:
                pre, last = blk[i - 1], st.body[-1]
                if isinstance(pre, ast.Assign) and len(pre.targets) == 1 and isinstance(pre.targets[0], ast.Name) and isinstance(pre.value, ast.Call) \
                        and isinstance(last, ast.Assign) and norm(last) == norm(pre):
                    kind = cont_test(st.test, pre.targets[0].id)
                    if kind:
                        out.append(SentinelLoop(st, pre.targets[0].id, pre.value, st.body[:-1], kind))
            if isinstance(st, ast.While) and isinstance(st.test, ast.Compare) and isinstance(st.test.left, ast.NamedExpr) \
                    and isinstance(st.test.left.value, ast.Call) and len(st.test.ops) == 1 and isinstance(st.test.ops[0], ast.IsNot) \
                    and isinstance(st.test.comparators[0], ast.Constant) and st.test.comparators[0].value is None:
                out.append(SentinelLoop(st, st.test.left.target.id, st.test.left.value, st.body, 'None'))
            if isinstance(st, ast.While) and isinstance(st.test, ast.NamedExpr) and isinstance(st.test.value, ast.Call):
                out.append(SentinelLoop(st, st.test.target.id, st.test.value, st.body, 'falsy'))
    return out


# ---------------------------------------------------------------------------------------------
# small canonicalisations

def inline_yield_from(func, depth=2):
    """`yield from g(a, b)` as a statement, g a generator function of the module without return / try / nested definitions:
    the body of g in place, its parameters bound to the arguments (a plain argument is substituted, another one is first bound to a
    fresh local) and its other locals renamed apart.  What the delegating generator yields is exactly what the body yields.
    Returns (new function node, names of the inlined helpers)."""
    module = func.module
    fn = clone(func.node)
    inlined = []
    counter = [0]

    def helper(call):
        if not isinstance(call.func, ast.Name) or call.keywords or any(isinstance(a, ast.Starred) for a in call.args):
            return None
        g = module.funcs.get(call.func.id)
        if g is None or g.node is func.node:
            return None
        a = g.node.args
        if a.vararg or a.kwarg or a.kwonlyargs or a.defaults or len(a.args) != len(call.args) or g.node.decorator_list:
            return None
        inner = list(walk_no_nested(g.node))
        if not any(isinstance(n, (ast.Yield, ast.YieldFrom)) for n in inner):
            return None
        if any(isinstance(n, (ast.Return, ast.Try, ast.FunctionDef, ast.Lambda, ast.Global, ast.Nonlocal)) for n in inner if n is not g.node):
            return None
        return g

    def rewrite(body, level):
        out = []
        for st in body:
            for fld in ('body', 'orelse', 'finalbody'):
                if isinstance(getattr(st, fld, None), list) and not isinstance(st, (ast.FunctionDef, ast.ClassDef)):
                    setattr(st, fld, rewrite(getattr(st, fld), level))
            for h in getattr(st, 'handlers', []) or []:
                h.body = rewrite(h.body, level)
            if isinstance(st, ast.Expr) and isinstance(st.value, ast.YieldFrom) and isinstance(st.value.value, ast.Call) and level > 0:
                g = helper(st.value.value)
                if g is not None:
                    counter[0] += 1
                    params = [x.arg for x in g.node.args.args]
                    stored = {n.id for n in walk_no_nested(g.node) if isinstance(n, ast.Name) and isinstance(n.ctx, ast.Store)}
                    names = {n_: '__%s_%d' % (n_, counter[0]) for n_ in stored}
                    exprs = {}
                    for p_, a_ in zip(params, st.value.value.args):
                        if _simple_arg(a_) and p_ not in stored:
                            exprs[p_] = a_
                        else:
                            names[p_] = '__%s_%d' % (p_, counter[0])
                            out.append(ast.copy_location(ast.Assign(targets=[ast.Name(id=names[p_], ctx=ast.Store())], value=a_), st))
                    gb = [b for b in g.node.body if not (isinstance(b, ast.Expr) and isinstance(b.value, ast.Constant))]
                    new = [ast.copy_location(_Rename(names, exprs).visit(clone(b)), st) for b in gb]
                    for b in new:
                        for n in ast.walk(b):
                            if hasattr(n, 'lineno'):
                                n.lineno = n.end_lineno = st.lineno
                    inlined.append(g.qual)
                    out.extend(rewrite(new, level - 1))
                    continue
            out.append(st)
        return out
    fn.body = rewrite(fn.body, depth)
    ast.fix_missing_locations(fn)
    from .core import set_parents
    set_parents(fn)
    return fn, inlined


def class_table_nodes(module, scope=''):
    """resolver for unroll_const_loops: `NAME`, `Class.NAME`, `self.NAME`, `cls.NAME` -> the literal tuple/list the name is bound to
    (bound exactly once in its class body / at module level, and never stored to through an attribute anywhere in the module)"""
    stored = {n.attr for n in ast.walk(module.tree) if isinstance(n, ast.Attribute) and isinstance(n.ctx, (ast.Store, ast.Del))}

    def bound_once(body, name):
        k = 0
        for st in body:
            for n in ast.walk(st) if not isinstance(st, (ast.FunctionDef, ast.AsyncFunctionDef, ast.ClassDef)) else ():
                if isinstance(n, ast.Name) and n.id == name and isinstance(n.ctx, ast.Store):
                    k += 1
        return k == 1

    def look(text):
        parts = text.split('.')
        if len(parts) == 1:
            n = module.const_nodes.get('', {}).get(text)
            return n if n is not None and bound_once(module.tree.body, text) else None
        if len(parts) == 2 and ((parts[0] in ('self', 'cls') and scope) or parts[0] in module.classes):
            cname = scope if parts[0] in ('self', 'cls') else parts[0]
            n, c = module.class_const_node(cname, parts[1])
            if n is not None and parts[1] not in stored and bound_once(module.classes[c].body, parts[1]):
                return n
        return None
    return look


def islice_to_slice(fnode):
    """`itertools.islice(E, a[, b])` with E the list a str method returns (split, splitlines, ...) and constant non-negative bounds is
    the items of `E[a:b]`"""
    fn = clone(fnode)

    class T(ast.NodeTransformer):
        def visit_Call(self, c):
            self.generic_visit(c)
            if norm(c.func) in ('itertools.islice', 'islice') and 2 <= len(c.args) <= 3 and not c.keywords:
                e = c.args[0]
                is_list = isinstance(e, ast.Call) and isinstance(e.func, ast.Attribute) and e.func.attr in ('split', 'splitlines', 'rsplit')
                bounds = c.args[1:]
                okb = all(isinstance(b, ast.Constant) and (b.value is None or (isinstance(b.value, int) and b.value >= 0)) for b in bounds)
                if is_list and okb:
                    lo, hi = (None, bounds[0]) if len(bounds) == 1 else (bounds[0], bounds[1])
                    lo = None if lo is None or lo.value is None else lo
                    hi = None if hi is None or hi.value is None else hi
                    return ast.copy_location(ast.Subscript(value=e, slice=ast.Slice(lower=lo, upper=hi, step=None), ctx=ast.Load()), c)
            return c
    fn = T().visit(fn)
    ast.fix_missing_locations(fn)
    return fn


def iter_skip_to_slice(fnode):
    """`it = iter(E); next(it, d); ...k times...; for v in it: BODY` with E the list a str method returns (split, splitlines, ...)
    and `it` used nowhere else is `for v in E[k:]: BODY` -- taking k items off the iterator of a list, each with a default so that
    an exhausted iterator is no error, leaves the items from position k on."""
    fn = clone(fnode)
    uses = {}
    for n in ast.walk(fn):
        if isinstance(n, ast.Name):
            uses[n.id] = uses.get(n.id, 0) + 1

    def rewrite(body):
        out = []
        i = 0
        while i < len(body):
            st = body[i]
            for fld in ('body', 'orelse', 'finalbody'):
                if isinstance(getattr(st, fld, None), list) and not isinstance(st, ast.ClassDef):
                    setattr(st, fld, rewrite(getattr(st, fld)))
            for h in getattr(st, 'handlers', []) or []:
                h.body = rewrite(h.body)
            if isinstance(st, ast.Assign) and len(st.targets) == 1 and isinstance(st.targets[0], ast.Name) and isinstance(st.value, ast.Call) \
                    and norm(st.value.func) == 'iter' and len(st.value.args) == 1 and not st.value.keywords:
                name, e = st.targets[0].id, st.value.args[0]
                is_list = isinstance(e, ast.Call) and isinstance(e.func, ast.Attribute) and e.func.attr in ('split', 'splitlines', 'rsplit')
                j, k = i + 1, 0
                while j < len(body) and isinstance(body[j], ast.Expr) and isinstance(body[j].value, ast.Call) and norm(body[j].value.func) == 'next' \
                        and len(body[j].value.args) == 2 and norm(body[j].value.args[0]) == name and isinstance(body[j].value.args[1], ast.Constant):
                    j += 1
                    k += 1
                if is_list and j < len(body) and isinstance(body[j], ast.For) and norm(body[j].iter) == name and uses.get(name) == k + 2:
                    loop = body[j]
                    for fld in ('body', 'orelse'):
                        setattr(loop, fld, rewrite(getattr(loop, fld)))
                    loop.iter = ast.copy_location(ast.Subscript(value=e, slice=ast.Slice(lower=ast.Constant(value=k), upper=None, step=None), ctx=ast.Load()), e) if k else e
                    out.append(loop)
                    i = j + 1
                    continue
            out.append(st)
            i += 1
        return out
    fn.body = rewrite(fn.body)
    ast.fix_missing_locations(fn)
    return fn


def unroll_const_loops(fnode, consts=None, limit=8, table_nodes=None):
    """`for x in (c1, c2, ...): BODY` over a literal tuple/list of constants (no break/continue/else) becomes
    BODY[x:=c1]; BODY[x:=c2]; ...   and   getattr(obj, 'name')  becomes  obj.name"""
    fn = clone(fnode)

    def const_str(e):
        """value of a string expression built from literals with + and %"""
        if isinstance(e, ast.Constant) and isinstance(e.value, str):
            return e.value
        if isinstance(e, ast.BinOp) and isinstance(e.op, ast.Add):
            l, r = const_str(e.left), const_str(e.right)
            return l + r if l is not None and r is not None else None
        if isinstance(e, ast.BinOp) and isinstance(e.op, ast.Mod) and isinstance(e.left, ast.Constant) and isinstance(e.left.value, str):
            args = e.right.elts if isinstance(e.right, ast.Tuple) else [e.right]
            vals = [const_str(a) for a in args]
            if all(v is not None for v in vals):
                try:
                    return e.left.value % tuple(vals)
                except (TypeError, ValueError):
                    return None
        return None

    class G(ast.NodeTransformer):
        def visit_Call(self, c):
            self.generic_visit(c)
            if isinstance(c.func, ast.Name) and c.func.id == 'getattr' and len(c.args) == 2 and not c.keywords:
                nm = const_str(c.args[1])
                if nm is not None and nm.isidentifier():
                    return ast.copy_location(ast.Attribute(value=c.args[0], attr=nm, ctx=ast.Load()), c)
            return c

        def visit_Subscript(self, n):
            self.generic_visit(n)
            # m.groupdict()[name] is m.group(name)
            if isinstance(n.ctx, ast.Load) and isinstance(n.value, ast.Call) and isinstance(n.value.func, ast.Attribute) and n.value.func.attr == 'groupdict' \
                    and not n.value.args and not n.value.keywords and isinstance(n.slice, ast.Constant) and isinstance(n.slice.value, str):
                return ast.copy_location(ast.Call(func=ast.Attribute(value=n.value.func.value, attr='group', ctx=ast.Load()), args=[n.slice], keywords=[]), n)
            return n

        def visit_Expr(self, st):
            self.generic_visit(st)
            # setattr(obj, '<name>', v) is obj.<name> = v
            c = st.value
            if isinstance(c, ast.Call) and isinstance(c.func, ast.Name) and c.func.id == 'setattr' and len(c.args) == 3 and not c.keywords:
                nm = const_str(c.args[1])
                if nm is not None and nm.isidentifier():
                    return ast.copy_location(ast.Assign(targets=[ast.Attribute(value=c.args[0], attr=nm, ctx=ast.Store())], value=c.args[2]), st)
            return st

    # locals bound exactly once (anywhere in the function, nested definitions included) to a literal table
    tables = {}
    counts = {}
    for n in ast.walk(fn):
        if isinstance(n, ast.Name) and isinstance(n.ctx, ast.Store):
            counts[n.id] = counts.get(n.id, 0) + 1
    for n in ast.walk(fn):
        if isinstance(n, ast.Assign) and len(n.targets) == 1 and isinstance(n.targets[0], ast.Name) and counts.get(n.targets[0].id) == 1 \
                and isinstance(n.value, (ast.Tuple, ast.List)):
            tables[n.targets[0].id] = n.value

    def plain(e):
        """an element that can be substituted for the loop variable: constants, lambdas, names, tuples of these"""
        if isinstance(e, (ast.Constant, ast.Lambda, ast.Name, ast.Attribute)):
            return True
        return isinstance(e, (ast.Tuple, ast.List)) and all(plain(x) for x in e.elts)

    def items_of(it):
        if isinstance(it, ast.Name) and it.id in tables:
            it = tables[it.id]
        elif table_nodes is not None and isinstance(it, (ast.Name, ast.Attribute)):
            # a table bound once at class / module level (the caller resolves the name to its defining expression)
            tn = table_nodes(norm(it))
            if isinstance(tn, (ast.Tuple, ast.List)):
                it = tn
        if isinstance(it, (ast.Tuple, ast.List)) and all(isinstance(e, ast.Constant) for e in it.elts) and len(it.elts) <= limit:
            return [e for e in it.elts]
        if isinstance(it, (ast.Tuple, ast.List)) and it.elts and all(plain(e) for e in it.elts) and len(it.elts) <= limit:
            return [e for e in it.elts]
        if consts is not None and isinstance(it, (ast.Name, ast.Attribute)):
            v = consts(norm(it))
            if v is not None and isinstance(v[0], (tuple, list)) and len(v[0]) <= limit and all(isinstance(x, (str, int, bytes)) for x in v[0]):
                return [ast.Constant(value=x) for x in v[0]]
        return None

    def rewrite(body):
        out = []
        for st in body:
            for fld in ('body', 'orelse', 'finalbody'):
                if isinstance(getattr(st, fld, None), list) and not isinstance(st, (ast.FunctionDef, ast.ClassDef)):
                    setattr(st, fld, rewrite(getattr(st, fld)))
            for h in getattr(st, 'handlers', []) or []:
                h.body = rewrite(h.body)
            if isinstance(st, ast.For) and not st.orelse and (isinstance(st.target, ast.Name) or (
                    isinstance(st.target, (ast.Tuple, ast.List)) and all(isinstance(x, ast.Name) for x in st.target.elts))):
                items = items_of(st.iter)
                names = [st.target.id] if isinstance(st.target, ast.Name) else [x.id for x in st.target.elts]
                jumps = any(isinstance(n, (ast.Break, ast.Continue)) for n in walk_no_nested(st))
                stores = any(isinstance(n, ast.Name) and n.id in names and isinstance(n.ctx, ast.Store) for b in st.body for n in ast.walk(b))
                if items is not None and isinstance(st.target, (ast.Tuple, ast.List)) and not all(
                        isinstance(c, (ast.Tuple, ast.List)) and len(c.elts) == len(names) for c in items):
                    items = None
                if items is not None and not jumps and not stores:
                    for c in items:
                        binding = {names[0]: c} if isinstance(st.target, ast.Name) else dict(zip(names, c.elts))
                        for b in st.body:
                            nb = _Rename({}, binding).visit(clone(b))
                            out.append(B().visit(G().visit(nb)))
                    continue
            if isinstance(st, (ast.FunctionDef, ast.AsyncFunctionDef)):
                st.body = rewrite(st.body)
            out.append(st)
        return out

    class B(ast.NodeTransformer):
        """(lambda p: E)(a) with a plain argument is E[p:=a]"""
        def visit_Call(self, c):
            self.generic_visit(c)
            if isinstance(c.func, ast.Lambda) and not c.keywords and len(c.args) == len(c.func.args.args) and not c.func.args.vararg and not c.func.args.kwarg \
                    and all(_simple_arg(a) for a in c.args):
                return ast.copy_location(_Rename({}, {p_.arg: a for p_, a in zip(c.func.args.args, c.args)}).visit(clone(c.func.body)), c)
            return c
    fn.body = rewrite(fn.body)
    fn = G().visit(fn)
    ast.fix_missing_locations(fn)
    return fn


def enum_members_to_locals(fnode, module):
    """`class S(enum.Enum): A = 'a'; B = 'b'` at module level and `S.A`, `S.B` in the function: the members are distinct named constants.
    Where they are only compared, assigned and -- when the class says `def __str__(self): return self.value` -- formatted, they are
    read as locals `S_A = 'a'` bound at the top of the function (what the code looked like before someone introduced the enum).
    Conditions: the class derives from enum.Enum only, its members are string constants with pairwise different values, and the
    function uses the class through member access only."""
    enums = {}
    for cname, cnode in module.classes.items():
        if '.' in cname or not any(norm(b) in ('enum.Enum', 'Enum') for b in cnode.bases) or len(cnode.bases) != 1:
            continue
        members, ok = {}, True
        str_is_value = False
        for st in cnode.body:
            if isinstance(st, ast.Expr) and isinstance(st.value, ast.Constant):
                continue
            if isinstance(st, ast.Assign) and len(st.targets) == 1 and isinstance(st.targets[0], ast.Name) and isinstance(st.value, ast.Constant) and isinstance(st.value.value, str):
                members[st.targets[0].id] = st.value.value
            elif isinstance(st, ast.FunctionDef) and st.name == '__str__':
                body = [b for b in st.body if not (isinstance(b, ast.Expr) and isinstance(b.value, ast.Constant))]
                str_is_value = len(body) == 1 and isinstance(body[0], ast.Return) and body[0].value is not None and norm(body[0].value) == 'self.value'
                ok = ok and str_is_value
            else:
                ok = False
        if ok and members and len(set(members.values())) == len(members):
            enums[cname] = (members, str_is_value)
    if not enums:
        return fnode
    fn = clone(fnode)
    used = {}
    bad = set()
    par = {}
    for n in ast.walk(fn):
        for c in ast.iter_child_nodes(n):
            par[id(c)] = n
    for n in ast.walk(fn):
        if isinstance(n, ast.Name) and n.id in enums:
            up = par.get(id(n))
            if not (isinstance(up, ast.Attribute) and up.value is n and up.attr in enums[n.id][0] and isinstance(up.ctx, ast.Load)):
                bad.add(n.id)
    formatted = any(isinstance(n, ast.BinOp) and isinstance(n.op, ast.Mod) and isinstance(n.left, ast.Constant) and isinstance(n.left.value, str) for n in ast.walk(fn)) \
        or any(isinstance(n, (ast.JoinedStr,)) for n in ast.walk(fn)) or any(isinstance(n, ast.Call) and norm(n.func) in ('str', 'repr', 'format') for n in ast.walk(fn))

    class R(ast.NodeTransformer):
        def visit_Attribute(self, n):
            if isinstance(n.value, ast.Name) and n.value.id in enums and n.value.id not in bad and n.attr in enums[n.value.id][0] \
                    and (enums[n.value.id][1] or not formatted):
                nm = '%s_%s' % (n.value.id.strip('_'), n.attr)
                used[nm] = enums[n.value.id][0][n.attr]
                return ast.copy_location(ast.Name(id=nm, ctx=ast.Load()), n)
            return self.generic_visit(n)
    fn = R().visit(fn)
    if not used:
        return fnode
    taken = {n.id for n in ast.walk(fnode) if isinstance(n, ast.Name)} | {a.arg for a in fnode.args.args}
    if taken & set(used):
        return fnode
    k = 1 if fn.body and isinstance(fn.body[0], ast.Expr) and isinstance(fn.body[0].value, ast.Constant) else 0
    pre = [ast.Assign(targets=[ast.Name(id=nm, ctx=ast.Store())], value=ast.Constant(value=v)) for nm, v in sorted(used.items())]
    for st in pre:
        ast.copy_location(st, fn.body[k] if len(fn.body) > k else fn)
    fn.body[k:k] = pre
    ast.fix_missing_locations(fn)
    return fn


def local_table_nodes(fnode, also=None):
    """resolver for expand_quantifiers / unroll_const_loops: a local name bound exactly once, at the top level of the function, to a
    literal tuple/list whose entries only read constants, parameters and attributes of `self` that the function never stores to --
    so an entry means the same wherever the table is read.  `also`: another resolver asked for every other name"""
    stores = [n for n in ast.walk(fnode) if isinstance(n, (ast.Name, ast.Attribute, ast.Subscript)) and isinstance(n.ctx, (ast.Store, ast.Del))]
    stored_names = [n.id for n in stores if isinstance(n, ast.Name)]
    stored_attrs = {norm(n) for n in stores if isinstance(n, ast.Attribute)} | {norm(n.value) for n in stores if isinstance(n, ast.Subscript)}
    has_calls_on_self = False
    tables = {}
    for st in fnode.body:
        if isinstance(st, ast.Assign) and len(st.targets) == 1 and isinstance(st.targets[0], ast.Name) and isinstance(st.value, (ast.Tuple, ast.List)) \
                and stored_names.count(st.targets[0].id) == 1:
            ok = True
            for n in ast.walk(st.value):
                if isinstance(n, (ast.Call, ast.Lambda, ast.Starred, ast.NamedExpr, ast.Await, ast.Yield, ast.YieldFrom, ast.GeneratorExp, ast.ListComp, ast.SetComp, ast.DictComp)):
                    ok = False
                if isinstance(n, ast.Name) and isinstance(n.ctx, ast.Load) and n.id in stored_names:
                    ok = False
                if isinstance(n, ast.Attribute) and (norm(n) in stored_attrs or not norm(n).startswith('self.')):
                    ok = False
            if ok:
                tables[st.targets[0].id] = st.value

    def look(text):
        if text in tables:
            return tables[text]
        return also(text) if also is not None else None
    return look


def join_over_table_to_concat(fnode, table_nodes=None, limit=8):
    """`''.join(E for x in TABLE if C)` over a literal table (in place, or one the resolver finds) is the concatenation
    `(E1 if C1 else '') + (E2 if C2 else '') + ...` of its rows -- only for the empty separator, where an omitted row leaves nothing"""
    fn = clone(fnode)

    def elements(it):
        if isinstance(it, (ast.Tuple, ast.List)):
            return it.elts
        if table_nodes is not None and isinstance(it, (ast.Name, ast.Attribute)):
            node = table_nodes(norm(it))
            if isinstance(node, (ast.Tuple, ast.List)):
                return node.elts
        return None

    class J(ast.NodeTransformer):
        def visit_Call(self, c):
            self.generic_visit(c)
            if not (isinstance(c.func, ast.Attribute) and c.func.attr == 'join' and isinstance(c.func.value, ast.Constant) and c.func.value.value == ''
                    and len(c.args) == 1 and not c.keywords and isinstance(c.args[0], (ast.GeneratorExp, ast.ListComp)) and len(c.args[0].generators) == 1):
                return c
            g = c.args[0].generators[0]
            elts = elements(g.iter)
            if elts is None or not (0 < len(elts) <= limit) or g.is_async:
                return c
            if isinstance(g.target, ast.Name):
                bs = [{g.target.id: e} for e in elts]
            elif isinstance(g.target, (ast.Tuple, ast.List)) and all(isinstance(x, ast.Name) for x in g.target.elts) \
                    and all(isinstance(e, (ast.Tuple, ast.List)) and len(e.elts) == len(g.target.elts) for e in elts):
                bs = [dict(zip([x.id for x in g.target.elts], e.elts)) for e in elts]
            else:
                return c
            parts = []
            for b in bs:
                val = _Rename({}, b).visit(clone(c.args[0].elt))
                if g.ifs:
                    conds = [_Rename({}, b).visit(clone(t)) for t in g.ifs]
                    test = conds[0] if len(conds) == 1 else ast.BoolOp(op=ast.And(), values=conds)
                    val = ast.IfExp(test=test, body=val, orelse=ast.Constant(value=''))
                parts.append(val)
            out = parts[0]
            for p_ in parts[1:]:
                out = ast.BinOp(left=out, op=ast.Add(), right=p_)
            return ast.copy_location(out, c)
    fn = J().visit(fn)
    ast.fix_missing_locations(fn)
    return fn


def fold_literal_subscripts(fnode):
    """`(a, b, c)[1]` -> `b` (what a substitution of a table row for a loop variable leaves behind)"""
    fn = clone(fnode)

    class F(ast.NodeTransformer):
        def visit_Subscript(self, n):
            self.generic_visit(n)
            if isinstance(n.value, (ast.Tuple, ast.List)) and isinstance(n.ctx, ast.Load) and not any(isinstance(e, ast.Starred) for e in n.value.elts):
                i = n.slice.value if isinstance(n.slice, ast.Constant) else (
                    -n.slice.operand.value if isinstance(n.slice, ast.UnaryOp) and isinstance(n.slice.op, ast.USub) and isinstance(n.slice.operand, ast.Constant)
                    and isinstance(n.slice.operand.value, int) else None)
                if isinstance(i, int) and not isinstance(i, bool) and -len(n.value.elts) <= i < len(n.value.elts):
                    return n.value.elts[i]
            return n
    fn = F().visit(fn)
    ast.fix_missing_locations(fn)
    return fn


def expand_quantifiers(fnode, module=None, limit=16, table_nodes=None):
    """any(E for x in (a, b, ...)) -> E[x:=a] or E[x:=b] ...;  all(...) -> and.  The iterable may be a literal
    tuple/list, a module-level name bound to one, or a table the resolver table_nodes finds (class level); the target may be a tuple
    of names over a table of tuples.  Where only its truth is used (the test of an if / while, an operand of and / or / not), a list
    comprehension `[E for x in TABLE if C]` is `any(C for x in TABLE)`: a list is true exactly when it has an item."""
    fn = clone(fnode)

    def elements(it):
        if isinstance(it, (ast.Tuple, ast.List)):
            return it.elts
        if module is not None and isinstance(it, ast.Name):
            node = module.const_nodes.get('', {}).get(it.id)
            if isinstance(node, (ast.Tuple, ast.List)):
                return node.elts
        if table_nodes is not None and isinstance(it, (ast.Name, ast.Attribute)):
            node = table_nodes(norm(it))
            if isinstance(node, (ast.Tuple, ast.List)):
                return node.elts
        return None

    def bindings(target, elts):
        """one substitution per table entry, or None"""
        if isinstance(target, ast.Name):
            return [{target.id: e} for e in elts]
        if isinstance(target, (ast.Tuple, ast.List)) and all(isinstance(x, ast.Name) for x in target.elts) \
                and all(isinstance(e, (ast.Tuple, ast.List)) and len(e.elts) == len(target.elts) for e in elts):
            return [dict(zip([x.id for x in target.elts], e.elts)) for e in elts]
        return None

    def expand(comp, body, op, at):
        g = comp.generators[0]
        elts = elements(g.iter)
        if elts is None or not (0 < len(elts) <= limit) or g.is_async:
            return None
        bs = bindings(g.target, elts)
        if bs is None:
            return None
        vals = [_Rename({}, b).visit(clone(body)) for b in bs]
        if len(vals) == 1:
            return vals[0]
        return ast.copy_location(ast.BoolOp(op=op, values=vals), at)

    def truth_of(e):
        """e in a position where only its truth counts"""
        if isinstance(e, ast.BoolOp):
            e.values = [truth_of(v) for v in e.values]
            return e
        if isinstance(e, ast.UnaryOp) and isinstance(e.op, ast.Not):
            e.operand = truth_of(e.operand)
            return e
        if isinstance(e, ast.ListComp) and len(e.generators) == 1:
            ifs = e.generators[0].ifs
            cond = ast.Constant(value=True) if not ifs else ifs[0] if len(ifs) == 1 else ast.BoolOp(op=ast.And(), values=list(ifs))
            r = expand(e, cond, ast.Or(), e)
            if r is not None:
                return r
        return e

    class Q(ast.NodeTransformer):
        def visit_Call(self, c):
            self.generic_visit(c)
            if isinstance(c.func, ast.Name) and c.func.id in ('any', 'all') and len(c.args) == 1 and not c.keywords \
                    and isinstance(c.args[0], (ast.GeneratorExp, ast.ListComp)) and len(c.args[0].generators) == 1 and not c.args[0].generators[0].ifs:
                r = expand(c.args[0], c.args[0].elt, ast.Or() if c.func.id == 'any' else ast.And(), c)
                if r is not None:
                    return r
            return c

        def visit_If(self, st):
            st.test = truth_of(st.test)
            return self.generic_visit(st)

        def visit_While(self, st):
            st.test = truth_of(st.test)
            return self.generic_visit(st)

        def visit_IfExp(self, e):
            e.test = truth_of(e.test)
            return self.generic_visit(e)
    fn = Q().visit(fn)
    ast.fix_missing_locations(fn)
    return fn


def ifexp_to_if(fnode):
    """`x = A if T else B` / `return A if T else B` as if-statements (a CFG then has the two paths)"""
    fn = clone(fnode)

    def conv(body):
        out = []
        for st in body:
            for fld in ('body', 'orelse', 'finalbody'):
                if isinstance(getattr(st, fld, None), list) and not isinstance(st, (ast.FunctionDef, ast.AsyncFunctionDef, ast.ClassDef)):
                    setattr(st, fld, conv(getattr(st, fld)))
            for h in getattr(st, 'handlers', []) or []:
                h.body = conv(h.body)
            v = st.value if isinstance(st, (ast.Assign, ast.Return, ast.AnnAssign)) else None
            if isinstance(v, ast.IfExp):
                def mk(val, st=st):
                    c = clone(st)
                    c.value = val
                    return c
                new = ast.If(test=v.test, body=conv([mk(v.body)]), orelse=conv([mk(v.orelse)]))
                out.append(ast.copy_location(new, st))
            else:
                out.append(st)
        return out
    fn.body = conv(fn.body)
    ast.fix_missing_locations(fn)
    return fn


def mode_variable_to_nested_loop(fnode):
    """a loop that reads a stream in two modes kept in a local M --

        M = None
        for x in SRC:
            if M is not None:
                (a, b, ...) = M            # optional
                T ...                      # every path ends the iteration; `M = None` on a path leaves the mode
                continue
            C ...
            M = (e1, e2, ...)              # last statement of the body: enter the mode
        if M is not None:
            raise E

    is the nested loop it abbreviates: the iterations in which M is set are the iterations of an inner loop over the same iterator
    that begins when M is assigned and ends where M is reset; the stream ending in the mode is the inner loop's else --

        it = iter(SRC)
        for x in it:
            C ...
            a = e1; b = e2; ...
            for x in it:
                T ...   (`M = None`: removed, the path ends in `break`)
            else:
                raise E

    Conditions checked: M is assigned only at these three places and read only by the mode test, the unpacking and the final test
    (there `M[k]` stands for the k-th unpacked name); the loop has no break and no else.  Returns the new function node or None."""
    fn = clone(fnode)
    body = fn.body
    for li, loop in enumerate(body):
        if not (isinstance(loop, ast.For) and not loop.orelse and loop.body and isinstance(loop.body[0], ast.If) and isinstance(loop.target, ast.Name)):
            continue
        head = loop.body[0]
        t = norm(head.test)
        if not t.endswith(' is not None') or head.orelse:
            continue
        M = t[:-len(' is not None')]
        if not M.isidentifier():
            continue
        # initialisation before the loop, final test after it
        init = [st for st in body[:li] if isinstance(st, ast.Assign) and len(st.targets) == 1 and norm(st.targets[0]) == M]
        if len(init) != 1 or not (isinstance(init[0].value, ast.Constant) and init[0].value.value is None):
            return None
        post = body[li + 1:]
        if not (len(post) >= 1 and isinstance(post[0], ast.If) and norm(post[0].test) == t and not post[0].orelse and len(post[0].body) == 1
                and isinstance(post[0].body[0], ast.Raise)):
            return None
        if any(isinstance(n, ast.Name) and n.id == M for st in post[1:] for n in ast.walk(st)):
            return None
        tbody = list(head.body)
        if not tbody or not isinstance(tbody[-1], ast.Continue):
            return None
        tbody = tbody[:-1]
        names = None
        if tbody and isinstance(tbody[0], ast.Assign) and len(tbody[0].targets) == 1 and isinstance(tbody[0].targets[0], (ast.Tuple, ast.List)) \
                and norm(tbody[0].value) == M and all(isinstance(e, ast.Name) for e in tbody[0].targets[0].elts):
            names = [e.id for e in tbody[0].targets[0].elts]
            tbody = tbody[1:]
        cbody = loop.body[1:]
        if not cbody:
            return None
        enter = cbody[-1]
        if not (isinstance(enter, ast.Assign) and len(enter.targets) == 1 and norm(enter.targets[0]) == M and isinstance(enter.value, ast.Tuple)
                and (names is None or len(enter.value.elts) == len(names))):
            return None
        if any(isinstance(n, ast.Name) and n.id == M for st in cbody[:-1] for n in ast.walk(st)):
            return None
        if any(isinstance(n, ast.Break) for st in loop.body for n in walk_no_nested(st)):
            return None
        # inside T: M occurs only in `M = None`
        resets = []
        for st in tbody:
            for n in ast.walk(st):
                if isinstance(n, ast.Assign) and len(n.targets) == 1 and norm(n.targets[0]) == M and isinstance(n.value, ast.Constant) and n.value.value is None:
                    resets.append(n)
        others = [n for st in tbody for n in ast.walk(st) if isinstance(n, ast.Name) and n.id == M]
        if len(others) != len(resets) or not resets:
            return None
        if any(isinstance(n, ast.Continue) for st in tbody for n in walk_no_nested(st)):
            return None
        # the unpacked names are re-read from M in every iteration of the mode: T must not re-bind them (it may call their methods)
        if names is not None and any(isinstance(n, ast.Name) and n.id in names and isinstance(n.ctx, (ast.Store, ast.Del)) for st in tbody for n in ast.walk(st)):
            return None

        hoisted = []

        def leave(block):
            """the block with `M = None` removed; a block that contained it ends in break.  With a single reset, what the block does
            besides moves behind the inner loop: the loop is left normally only through that break (its else raises), so these
            statements run exactly when and right after the break is taken."""
            out, hit = [], False
            for st in block:
                if st in resets:
                    hit = True
                    continue
                if isinstance(st, ast.If):
                    st = copy.copy(st)
                    st.body = leave(st.body) or [ast.Pass()]
                    st.orelse = leave(st.orelse)
                out.append(st)
            if hit:
                if any(isinstance(n, ast.Assign) and n in resets for st in out for n in ast.walk(st)):
                    raise ValueError
                if len(resets) == 1 and not any(isinstance(n, (ast.If, ast.For, ast.While, ast.Try)) for st in out for n in ast.walk(st)):
                    hoisted.extend(out)
                    out = []
                out.append(ast.Break())
            return out
        try:
            inner_body = leave(tbody)
        except ValueError:
            return None
        # a reset must end its iteration: it sits in a branch whose end falls through to the `continue` (checked: the reset's block
        # is a branch of an if that is the last statement of T, or T itself)
        last = tbody[-1] if tbody else None
        ok_pos = all(r in tbody or (isinstance(last, ast.If) and (r in last.body or r in last.orelse)) for r in resets)
        if not ok_pos:
            return None
        # final test: M[k] stands for the k-th unpacked name
        class Sub(ast.NodeTransformer):
            def visit_Subscript(self, n):
                if norm(n.value) == M and isinstance(n.slice, ast.Constant) and isinstance(n.slice.value, int) and names is not None \
                        and 0 <= n.slice.value < len(names):
                    return ast.copy_location(ast.Name(id=names[n.slice.value], ctx=ast.Load()), n)
                return self.generic_visit(n)
        els = [Sub().visit(clone(post[0].body[0]))]
        if any(isinstance(n, ast.Name) and n.id == M for n in ast.walk(els[0])):
            return None
        itname = '__stream'
        binds = []
        if names is not None:
            for nm, e in zip(names, enter.value.elts):
                if not (isinstance(e, ast.Name) and e.id == nm):
                    binds.append(ast.copy_location(ast.Assign(targets=[ast.Name(id=nm, ctx=ast.Store())], value=e), enter))
        inner = ast.copy_location(ast.For(target=clone(loop.target), iter=ast.Name(id=itname, ctx=ast.Load()), body=inner_body or [ast.Pass()], orelse=els), enter)
        after = [clone(st) for st in hoisted]
        for st in after:
            for n in ast.walk(st):
                if hasattr(n, 'lineno'):
                    n.lineno = n.end_lineno = enter.lineno + 1        # (behind the inner loop in the line order as well)
        new_loop = ast.copy_location(ast.For(target=loop.target, iter=ast.Name(id=itname, ctx=ast.Load()), body=cbody[:-1] + binds + [inner] + after, orelse=[]), loop)
        mk_it = ast.copy_location(ast.Assign(targets=[ast.Name(id=itname, ctx=ast.Store())],
                                             value=ast.Call(func=ast.Name(id='iter', ctx=ast.Load()), args=[loop.iter], keywords=[])), loop)
        fn.body = [st for st in body[:li] if st is not init[0]] + [mk_it, new_loop] + post[1:]
        ast.fix_missing_locations(fn)
        from .core import set_parents
        set_parents(fn)
        return fn
    return None


def list_accumulator_to_string(fnode):
    """a local list that collects pieces of text and is only ever read through `SEP.join(L)` with ONE constant separator:
         L = [a]          ->  L = a
         L.append(x)      ->  L = L + SEP + x
         SEP.join(L)      ->  L
    The list is never empty where it is joined (it is created with one element and only grows), so the joined text is the pieces
    with the separator between them -- the string accumulator the list abbreviates.  Applies only when every use of L is one of
    these three forms."""
    fn = clone(fnode)
    cands = {}
    for n in ast.walk(fn):
        if isinstance(n, ast.Assign) and len(n.targets) == 1 and isinstance(n.targets[0], ast.Name) and isinstance(n.value, ast.List) and len(n.value.elts) == 1 \
                and not isinstance(n.value.elts[0], ast.Starred):
            cands.setdefault(n.targets[0].id, []).append(n)
    done = False
    for name in sorted(cands):
        seps = set()
        ok = True
        uses = 0
        empties = []
        par = {}
        for n in ast.walk(fn):
            for c in ast.iter_child_nodes(n):
                par[id(c)] = n
        for n in ast.walk(fn):
            if not (isinstance(n, ast.Name) and n.id == name):
                continue
            up = par.get(id(n))
            if isinstance(n.ctx, ast.Store):
                if isinstance(up, ast.Assign) and len(up.targets) == 1 and isinstance(up.value, ast.List) and not up.value.elts and up in fn.body:
                    # `L = []` at the top of the function, before the first `L = [a]`: a placeholder (nothing is joined before the list
                    # has been given its first piece, or the code would write a text it never collected)
                    empties.append(up)
                    continue
                if not (isinstance(up, ast.Assign) and up in cands[name]):
                    ok = False
                continue
            up2 = par.get(id(up)) if up is not None else None
            if isinstance(up, ast.Attribute) and up.attr == 'append' and isinstance(up2, ast.Call) and up2.func is up and len(up2.args) == 1 and not up2.keywords \
                    and isinstance(par.get(id(up2)), ast.Expr):
                uses += 1
            elif isinstance(up, ast.Call) and isinstance(up.func, ast.Attribute) and up.func.attr == 'join' and isinstance(up.func.value, ast.Constant) \
                    and isinstance(up.func.value.value, str) and up.args == [n] and not up.keywords:
                seps.add(up.func.value.value)
                uses += 1
            else:
                ok = False
        if not ok or len(seps) != 1 or not uses:
            continue
        sep = seps.pop()

        class T(ast.NodeTransformer):
            def visit_Assign(self, st):
                self.generic_visit(st)
                if len(st.targets) == 1 and isinstance(st.targets[0], ast.Name) and st.targets[0].id == name and isinstance(st.value, ast.List) and len(st.value.elts) == 1:
                    st.value = st.value.elts[0]
                elif len(st.targets) == 1 and isinstance(st.targets[0], ast.Name) and st.targets[0].id == name and isinstance(st.value, ast.List) and not st.value.elts:
                    st.value = ast.copy_location(ast.Constant(value=''), st.value)
                return st

            def visit_Expr(self, st):
                c = st.value
                if isinstance(c, ast.Call) and isinstance(c.func, ast.Attribute) and c.func.attr == 'append' and isinstance(c.func.value, ast.Name) and c.func.value.id == name:
                    arg = self.visit(c.args[0])
                    new = ast.BinOp(left=ast.BinOp(left=ast.Name(id=name, ctx=ast.Load()), op=ast.Add(), right=ast.Constant(value=sep)), op=ast.Add(), right=arg)
                    return ast.copy_location(ast.Assign(targets=[ast.Name(id=name, ctx=ast.Store())], value=new), st)
                return self.generic_visit(st)

            def visit_Call(self, c):
                if isinstance(c.func, ast.Attribute) and c.func.attr == 'join' and isinstance(c.func.value, ast.Constant) and len(c.args) == 1 \
                        and isinstance(c.args[0], ast.Name) and c.args[0].id == name:
                    return ast.copy_location(ast.Name(id=name, ctx=ast.Load()), c)
                return self.generic_visit(c)
        fn = T().visit(fn)
        done = True
    if not done:
        return fnode
    ast.fix_missing_locations(fn)
    return fn


def genexp_loop_fusion(fnode):
    """`for x in (E for y in IT if C): BODY` -- the generator expression given in place, or through a local that is bound once to it
    and read once, as this loop's iterable -- is `for y in IT: if not C: continue; x = E; BODY`: a generator expression is consumed
    item by item, each item computed when the loop asks for it."""
    fn = clone(fnode)
    stores = {}
    loads = {}
    for n in ast.walk(fn):
        if isinstance(n, ast.Name):
            (stores if isinstance(n.ctx, ast.Store) else loads).setdefault(n.id, []).append(n)
    binds = {}
    for st in fn.body:
        if isinstance(st, ast.Assign) and len(st.targets) == 1 and isinstance(st.targets[0], ast.Name) and isinstance(st.value, ast.GeneratorExp) \
                and len(stores.get(st.targets[0].id, [])) == 1 and len(loads.get(st.targets[0].id, [])) == 1:
            binds[st.targets[0].id] = st
    changed = [False]
    used_binds = set()

    def fuse(stmts):
        out = []
        for st in stmts:
            for fld in ('body', 'orelse', 'finalbody'):
                if isinstance(getattr(st, fld, None), list) and not isinstance(st, (ast.FunctionDef, ast.AsyncFunctionDef, ast.ClassDef)):
                    setattr(st, fld, fuse(getattr(st, fld)))
            for h in getattr(st, 'handlers', []) or []:
                h.body = fuse(h.body)
            if isinstance(st, ast.For) and not st.orelse:
                g = st.iter
                via = None
                if isinstance(g, ast.Name) and g.id in binds:
                    via = g.id
                    g = binds[g.id].value
                if isinstance(g, ast.GeneratorExp) and len(g.generators) == 1 and not g.generators[0].is_async:
                    gen = g.generators[0]
                    inner_names = {n.id for n in ast.walk(gen.target) if isinstance(n, ast.Name)}
                    body_stores = {n.id for b in st.body for n in ast.walk(b) if isinstance(n, ast.Name) and isinstance(n.ctx, ast.Store)}
                    if not (inner_names & body_stores) and not (inner_names & {n.id for n in ast.walk(st.target) if isinstance(n, ast.Name)}):
                        pre = [ast.copy_location(ast.If(test=ast.UnaryOp(op=ast.Not(), operand=c), body=[ast.Continue()], orelse=[]), st) for c in gen.ifs]
                        pre.append(ast.copy_location(ast.Assign(targets=[st.target], value=g.elt), st))
                        st = ast.copy_location(ast.For(target=gen.target, iter=gen.iter, body=pre + st.body, orelse=[]), st)
                        changed[0] = True
                        if via:
                            used_binds.add(via)
            out.append(st)
        return out
    fn.body = fuse(fn.body)
    if not changed[0]:
        return fnode
    fn.body = [st for st in fn.body if not (isinstance(st, ast.Assign) and len(st.targets) == 1 and isinstance(st.targets[0], ast.Name) and st.targets[0].id in used_binds
                                             and isinstance(st.value, ast.GeneratorExp))]
    ast.fix_missing_locations(fn)
    return fn


def block_copy_propagation(fnode):
    """inside one block: after `k = K` (a plain name copied into a plain name) the statements that follow in the same block read K
    where they read k, until k or K is stored again.  (Glue left behind by fusing a generator into its consumer.)"""
    fn = clone(fnode)

    def stores_of(st):
        return {n.id for n in ast.walk(st) if isinstance(n, ast.Name) and isinstance(n.ctx, (ast.Store, ast.Del))} | \
               {n.name for n in ast.walk(st) if isinstance(n, (ast.FunctionDef, ast.ClassDef))}

    def block(stmts):
        copies = {}
        out = []
        for st in stmts:
            for fld in ('body', 'orelse', 'finalbody'):
                if isinstance(getattr(st, fld, None), list) and not isinstance(st, (ast.FunctionDef, ast.AsyncFunctionDef, ast.ClassDef)):
                    setattr(st, fld, block(getattr(st, fld)))
            for h in getattr(st, 'handlers', []) or []:
                h.body = block(h.body)
            if copies and not isinstance(st, (ast.FunctionDef, ast.AsyncFunctionDef, ast.ClassDef)):
                simple = not any(isinstance(getattr(st, fld, None), list) for fld in ('body', 'orelse', 'finalbody'))
                if simple:
                    st = _Rename({}, {k: ast.Name(id=v, ctx=ast.Load()) for k, v in copies.items()}).visit(st)
            killed = stores_of(st)
            copies = {k: v for k, v in copies.items() if k not in killed and v not in killed}
            if isinstance(st, ast.Assign) and len(st.targets) == 1 and isinstance(st.targets[0], ast.Name) and isinstance(st.value, ast.Name) \
                    and st.targets[0].id != st.value.id:
                copies[st.targets[0].id] = st.value.id
            out.append(st)
        return out
    fn.body = block(fn.body)
    # copies nobody reads any more are dropped
    loaded = {n.id for n in ast.walk(fn) if isinstance(n, ast.Name) and isinstance(n.ctx, ast.Load)}

    def prune(stmts):
        out = []
        for st in stmts:
            for fld in ('body', 'orelse', 'finalbody'):
                if isinstance(getattr(st, fld, None), list) and not isinstance(st, (ast.FunctionDef, ast.AsyncFunctionDef, ast.ClassDef)):
                    setattr(st, fld, prune(getattr(st, fld)) or [ast.copy_location(ast.Pass(), st)])
            for h in getattr(st, 'handlers', []) or []:
                h.body = prune(h.body) or [ast.copy_location(ast.Pass(), h)]
            if isinstance(st, ast.Assign) and len(st.targets) == 1 and isinstance(st.targets[0], ast.Name) and isinstance(st.value, ast.Name) \
                    and st.targets[0].id not in loaded:
                continue
            out.append(st)
        return out
    fn.body = prune(fn.body)
    ast.fix_missing_locations(fn)
    return fn


def split_tuple_assign(fnode):
    """`a, b, c = (x, y, z)` with plain names on the left, none of which is read on the right, is `a = x; b = y; c = z`"""
    fn = clone(fnode)

    def rewrite(body):
        out = []
        for st in body:
            for fld in ('body', 'orelse', 'finalbody'):
                if isinstance(getattr(st, fld, None), list) and not isinstance(st, ast.ClassDef):
                    setattr(st, fld, rewrite(getattr(st, fld)))
            for h in getattr(st, 'handlers', []) or []:
                h.body = rewrite(h.body)
            if isinstance(st, ast.Assign) and len(st.targets) == 1 and isinstance(st.targets[0], (ast.Tuple, ast.List)) and isinstance(st.value, (ast.Tuple, ast.List)) \
                    and len(st.value.elts) == len(st.targets[0].elts) and all(isinstance(t, ast.Name) for t in st.targets[0].elts) \
                    and not any(isinstance(a, ast.Starred) for a in st.value.elts):
                tnames = {t.id for t in st.targets[0].elts}
                read = {n.id for n in ast.walk(st.value) if isinstance(n, ast.Name)}
                if len(tnames) == len(st.targets[0].elts) and not (tnames & read):
                    for t, a in zip(st.targets[0].elts, st.value.elts):
                        out.append(ast.copy_location(ast.Assign(targets=[t], value=a), st))
                    continue
            out.append(st)
        return out
    fn.body = rewrite(fn.body)
    ast.fix_missing_locations(fn)
    return fn


def split_group_unpacking(fnode):
    """`a, b, c = m.group(x, y, z)` (as many targets as arguments, m a plain name) is `a = m.group(x); b = m.group(y); c = m.group(z)`:
    Match.group with several arguments returns the tuple of the single groups."""
    fn = clone(fnode)

    def rewrite(body):
        out = []
        for st in body:
            for fld in ('body', 'orelse', 'finalbody'):
                if isinstance(getattr(st, fld, None), list) and not isinstance(st, ast.ClassDef):
                    setattr(st, fld, rewrite(getattr(st, fld)))
            for h in getattr(st, 'handlers', []) or []:
                h.body = rewrite(h.body)
            if isinstance(st, ast.Assign) and len(st.targets) == 1 and isinstance(st.targets[0], (ast.Tuple, ast.List)) and isinstance(st.value, ast.Call) \
                    and isinstance(st.value.func, ast.Attribute) and st.value.func.attr == 'group' and isinstance(st.value.func.value, ast.Name) \
                    and not st.value.keywords and len(st.value.args) == len(st.targets[0].elts) >= 2 \
                    and not any(isinstance(a, ast.Starred) for a in st.value.args) and not any(isinstance(t, ast.Starred) for t in st.targets[0].elts):
                for t, a in zip(st.targets[0].elts, st.value.args):
                    call = ast.Call(func=clone(st.value.func), args=[a], keywords=[])
                    out.append(ast.copy_location(ast.Assign(targets=[t], value=ast.copy_location(call, st.value)), st))
                continue
            out.append(st)
        return out
    fn.body = rewrite(fn.body)
    ast.fix_missing_locations(fn)
    return fn


def enumerate_pad_loop_to_while(fnode, la, lb):
    """`for i, a in enumerate(la): b = lb[i] if i < len(lb) else C; BODY` (i used nowhere else) is the position loop over la that
    pads lb:   while la: a = la.pop(0); b = C; if lb: b = lb.pop(0); BODY.   What follows the loop sees the lists as they were;
    `len(lb) > len(la)` there says that lb goes on after the end of la and `lb[len(la)]` is its element at that position.  Returns
    the new function node or None."""
    fn = clone(fnode)
    for idx, st in enumerate(fn.body):
        if not isinstance(st, ast.For):
            continue
        if not (isinstance(st.iter, ast.Call) and norm(st.iter.func) == 'enumerate' and [norm(a) for a in st.iter.args] == [la] and not st.iter.keywords
                and isinstance(st.target, ast.Tuple) and len(st.target.elts) == 2 and all(isinstance(e, ast.Name) for e in st.target.elts)
                and not st.orelse and st.body):
            return None
        i, a = st.target.elts[0].id, st.target.elts[1].id
        first = st.body[0]
        if not (isinstance(first, ast.Assign) and len(first.targets) == 1 and isinstance(first.targets[0], ast.Name) and isinstance(first.value, ast.IfExp)):
            return None
        b = first.targets[0].id
        ie = first.value
        if not (norm(ie.test) in ('%s < len(%s)' % (i, lb), 'len(%s) > %s' % (lb, i)) and norm(ie.body) == '%s[%s]' % (lb, i) and isinstance(ie.orelse, ast.Constant)):
            return None
        rest = st.body[1:]
        if any(isinstance(n, ast.Name) and n.id == i for s_ in rest for n in ast.walk(s_)) or \
                any(isinstance(n, ast.Name) and n.id in (la, lb) for s_ in rest for n in ast.walk(s_)) or \
                any(isinstance(n, (ast.Break, ast.Continue)) for s_ in rest for n in ast.walk(s_)):
            return None
        src_ = ('while {la}:\n'
                '    {a} = {la}.pop(0)\n'
                '    {b} = {c}\n'
                '    if {lb}:\n'
                '        {b} = {lb}.pop(0)\n').format(la=la, lb=lb, a=a, b=b, c=norm(ie.orelse))
        w = ast.parse(src_).body[0]
        for n in ast.walk(w):
            if hasattr(n, 'lineno'):
                n.lineno = n.end_lineno = st.lineno
        w.body = w.body + rest
        fn.body[idx] = w
        ast.fix_missing_locations(fn)
        from .core import set_parents
        set_parents(fn)
        return fn
    return None


def padded_list_compare_to_loop(fnode, va, vb):
    """the idiom `la = f(va); lb = f(vb); w = max(len(la), len(lb)); la.extend([c] * (w - len(la))); lb.extend([c] * (w - len(lb)));
    <result from comparisons of la with lb>` rewritten as the position loop it abbreviates:

        while la or lb:
            a = c; b = c
            if la: a = la.pop(0)
            if lb: b = lb.pop(0)
            if a < b: return <result when la < lb>
            if a > b: return <result when la > lb>
        return <result when la == lb>

    Python orders lists of the same length by the first position where they differ, so the rewrite is exact when (1) both lists are
    padded to the common length and (2) the rest of the function touches the two lists only by comparing one with the other: its
    result is then a function of the three-way order, evaluated here on one representative pair per order.  Returns the new
    function node, or None when the function does not have this shape."""
    from . import consteval
    body = [st for st in fnode.body if not (isinstance(st, ast.Expr) and isinstance(st.value, ast.Constant))]
    if any(isinstance(n, ast.While) for st in body for n in ast.walk(st)):
        return None
    la = lb = None
    i = 0
    for i, st in enumerate(body):
        if not (isinstance(st, ast.Assign) and len(st.targets) == 1 and isinstance(st.targets[0], ast.Name)):
            break
        names = {x.id for x in ast.walk(st.value) if isinstance(x, ast.Name)}
        if va in names and vb not in names and la is None:
            la = st.targets[0].id
        elif vb in names and va not in names and lb is None:
            lb = st.targets[0].id
        else:
            break
    else:
        return None
    if la is None or lb is None:
        return None
    head, rest = body[:i], body[i:]
    width = None
    pads = {}
    k = 0
    for k, st in enumerate(rest):
        t = norm(st)
        if isinstance(st, ast.Assign) and len(st.targets) == 1 and isinstance(st.targets[0], ast.Name) and \
                norm(st.value) in ('max(len(%s), len(%s))' % (la, lb), 'max(len(%s), len(%s))' % (lb, la)):
            width = st.targets[0].id
            continue
        ext = None
        if isinstance(st, ast.Expr) and isinstance(st.value, ast.Call) and isinstance(st.value.func, ast.Attribute) and st.value.func.attr == 'extend' \
                and len(st.value.args) == 1 and norm(st.value.func.value) in (la, lb):
            ext = (norm(st.value.func.value), st.value.args[0])
        elif isinstance(st, ast.AugAssign) and isinstance(st.op, ast.Add) and norm(st.target) in (la, lb):
            ext = (norm(st.target), st.value)
        if ext is not None and width is not None:
            lst, e = ext
            ok = isinstance(e, ast.BinOp) and isinstance(e.op, ast.Mult)
            if ok:
                l_, r_ = (e.left, e.right) if isinstance(e.left, ast.List) else (e.right, e.left)
                ok = isinstance(l_, ast.List) and len(l_.elts) == 1 and isinstance(l_.elts[0], ast.Constant) and norm(r_) == '%s - len(%s)' % (width, lst)
            if not ok or lst in pads:
                return None
            pads[lst] = l_.elts[0]
            continue
        if ext is not None and width is None:
            # without a width: each list is extended by (length of the other - its own length) items, a negative count adding none;
            # after the two statements both have the longer length
            lst, e = ext
            other = lb if lst == la else la
            ok = isinstance(e, ast.BinOp) and isinstance(e.op, ast.Mult)
            if ok:
                l_, r_ = (e.left, e.right) if isinstance(e.left, ast.List) else (e.right, e.left)
                ok = isinstance(l_, ast.List) and len(l_.elts) == 1 and isinstance(l_.elts[0], ast.Constant) and norm(r_) == 'len(%s) - len(%s)' % (other, lst)
            if not ok or lst in pads:
                return None
            pads[lst] = l_.elts[0]
            continue
        break
    else:
        return None
    tail = rest[k:]
    if set(pads) != {la, lb}:
        return None
    if tail and isinstance(tail[0], ast.For):
        # `for a, b in zip(la, lb): BODY` over the padded lists is the position loop with its items named by the loop target
        loop = tail[0]
        if not (norm(loop.iter) in ('zip(%s, %s)' % (la, lb),) and isinstance(loop.target, ast.Tuple) and len(loop.target.elts) == 2
                and all(isinstance(e, ast.Name) for e in loop.target.elts) and not loop.orelse):
            return None
        if any(isinstance(n, ast.Name) and n.id in (la, lb) for st in loop.body + tail[1:] for n in ast.walk(st)):
            return None
        if any(isinstance(n, (ast.While, ast.For)) for st in loop.body + tail[1:] for n in ast.walk(st)):
            return None
        ta, tb = loop.target.elts[0].id, loop.target.elts[1].id
        src_ = ('while {la} or {lb}:\n'
                '    {ta} = {pa}\n'
                '    {tb} = {pb}\n'
                '    if {la}:\n'
                '        {ta} = {la}.pop(0)\n'
                '    if {lb}:\n'
                '        {tb} = {lb}.pop(0)\n').format(la=la, lb=lb, ta=ta, tb=tb, pa=norm(pads[la]), pb=norm(pads[lb]))
        w = ast.parse(src_).body[0]
        for n in ast.walk(w):
            if hasattr(n, 'lineno'):
                n.lineno = n.end_lineno = loop.lineno
        w.body = w.body + [clone(st) for st in loop.body]
        out = clone(fnode)
        out.body = [clone(st) for st in head] + [w] + [clone(st) for st in tail[1:]]
        ast.fix_missing_locations(out)
        from .core import set_parents
        set_parents(out)
        return out
    if any(isinstance(n, ast.For) for st in tail for n in ast.walk(st)):
        return None
    # the tail touches the lists only by comparing one with the other
    from .core import set_parents
    for st in tail:
        set_parents(st)
    for st in tail:
        for n in ast.walk(st):
            if isinstance(n, ast.Name) and n.id in (la, lb):
                par = getattr(n, '_parent', None)
                if not (isinstance(par, ast.Compare) and len(par.ops) == 1 and {norm(par.left), norm(par.comparators[0])} == {la, lb}
                        and isinstance(par.ops[0], (ast.Eq, ast.NotEq, ast.Lt, ast.LtE, ast.Gt, ast.GtE))):
                    return None
    results = {}
    for order, (xa, xb) in (('lt', ([0], [1])), ('gt', ([1], [0])), ('eq', ([0], [0]))):
        ev = consteval.Evaluator(lambda name: (_ for _ in ()).throw(consteval.NotConstant(name)))
        try:
            r = ev.run_block([clone(st) for st in tail], {la: list(xa), lb: list(xb)})
        except consteval.NotConstant:
            return None
        if r is None or not isinstance(r[0], int) or isinstance(r[0], bool):
            return None
        results[order] = r[0]
    src_ = (
        'while {la} or {lb}:\n'
        '    __a = {pa}\n'
        '    __b = {pb}\n'
        '    if {la}:\n'
        '        __a = {la}.pop(0)\n'
        '    if {lb}:\n'
        '        __b = {lb}.pop(0)\n'
        '    if __a < __b:\n'
        '        return {lt}\n'
        '    if __a > __b:\n'
        '        return {gt}\n'
        'return {eq}\n').format(la=la, lb=lb, pa=norm(pads[la]), pb=norm(pads[lb]), **results)
    new_tail = ast.parse(src_).body
    for st in new_tail:
        for n in ast.walk(st):
            if hasattr(n, 'lineno'):
                n.lineno = n.end_lineno = tail[0].lineno
    out = clone(fnode)
    out.body = [clone(st) for st in head] + new_tail
    ast.fix_missing_locations(out)
    set_parents(out)
    return out

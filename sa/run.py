#!/venv/bin/python
"""CLI of the static-analysis framework.

  run.py --property Cxx [--tier quick|thorough]     evaluate the rules of one property on /repo
  run.py --replay <violation.json>                  re-evaluate the property of a stored violation
  run.py --all [--tier ..]                          all properties (development aid)

exit 0: every rule instance holds (or is a listed known finding)
exit 1: VIOLATION line(s) printed
exit 2: ANALYSIS-ERROR (rule not applicable to the current shape of the code; never a silent pass)
"""
import argparse
import importlib
import json
import os
import sys
import traceback

sys.path.insert(0, os.path.dirname(os.path.dirname(os.path.abspath(__file__))))
sys.setrecursionlimit(20000)

from sa import core   # noqa: E402

PROPS = ['C%02d' % i for i in range(1, 21)]


def engine_selfcheck(src, rep, pid):
    """thorough tier: consistency of the regular-language engine with CPython's `re` on the repository's
    own regex literals (acceptance in three call modes, and membership of the parse chosen by backtracking
    in the priority-pruned marked language).  This tests the analyser, not the repository: a disagreement
    is an ANALYSIS-ERROR, never a violation."""
    from sa import rx_selfcheck
    t, b, p = rx_selfcheck.selfcheck(src, per_regex=400)
    t2, b2, sk, p2 = rx_selfcheck.selfcheck_captures(src, per_regex=150)
    rep.extra['engine_selfcheck'] = {'acceptance_comparisons': t, 'capture_comparisons': t2, 'disagreements': b + b2,
                                     'group_mode_combinations_not_analysable': sk}
    for x in (p + p2):
        if ' unsupported: ' in x:
            rep.note('engine self-check skipped ' + x)
            continue
        rep.error(pid + '.engine', 'regular-language engine disagrees with re: ' + x)


def sensitivity(rep, pid):
    """thorough tier, informational: the archived variants of this property (confirmed behaviour-breaking changes and
    behaviour-preserving refactorings written by sub-agents) are applied to scratch copies of the *current* tree and the
    quick check is run on each copy.  The summary goes into the evidence; it never gates the verdict (a patch may stop
    applying when /repo changes)."""
    import concurrent.futures
    import shutil
    import subprocess
    import tempfile
    verif = os.path.dirname(os.path.dirname(os.path.abspath(__file__)))
    work = []
    for kind, expect in (('seeded', 1), ('neutral', 0)):
        base = os.path.join(verif, kind)
        for name in sorted(os.listdir(base)) if os.path.isdir(base) else []:
            if name.startswith(pid + '-') and os.path.isfile(os.path.join(base, name, 'patch.diff')):
                work.append((kind, name, os.path.join(base, name), expect))

    def one(w):
        kind, name, d, expect = w
        tmp = tempfile.mkdtemp(prefix='sa-sens-')
        try:
            shutil.copytree(os.path.join(core.REPO, 'lib'), os.path.join(tmp, 'lib'), ignore=shutil.ignore_patterns('__pycache__'))
            r = subprocess.run(['patch', '-p1', '-s', '-i', os.path.join(d, 'patch.diff')], cwd=tmp, capture_output=True, text=True)
            if r.returncode:
                return kind, name, 'patch does not apply'
            env = dict(os.environ, SA_REPO=tmp, SA_EVIDENCE=os.path.join(tmp, 'ev'), VERIF_TIER='quick')
            r = subprocess.run([sys.executable, os.path.abspath(__file__), '--property', pid, '--tier', 'quick'], env=env, capture_output=True, text=True)
            return kind, name, {0: 'silent', 1: 'violation reported', 2: 'analysis error'}.get(r.returncode, 'rc=%d' % r.returncode)
        finally:
            shutil.rmtree(tmp, ignore_errors=True)
    out = {'seeded': {}, 'neutral': {}}
    with concurrent.futures.ThreadPoolExecutor(min(16, max(1, len(work)))) as ex:
        for kind, name, verdict in ex.map(one, work):
            out[kind][name] = verdict
    det = sum(1 for v in out['seeded'].values() if v == 'violation reported')
    sil = sum(1 for v in out['neutral'].values() if v == 'silent')
    rep.extra['sensitivity'] = {'breaking_variants': len(out['seeded']), 'reported': det, 'neutral_variants': len(out['neutral']), 'silent': sil, 'verdicts': out}
    rep.note('%s sensitivity: %d/%d behaviour-breaking variants reported, %d/%d behaviour-preserving variants silent'
             % (pid, det, len(out['seeded']), sil, len(out['neutral'])))


def run_property(pid, tier):
    rep = core.Report(pid, tier)
    try:
        mod = importlib.import_module('sa.rules.' + pid)
    except ImportError as e:
        rep.error(pid, 'no rules implemented (%s)' % e)
        return core.finish(rep)
    try:
        src = core.Source()
        mod.check(src, rep, tier)
        if tier == 'thorough':
            engine_selfcheck(src, rep, pid)
            sensitivity(rep, pid)
    except core.AnalysisError as e:
        rep.error(pid, str(e))
    except Exception as e:   # pylint: disable=broad-except
        rep.error(pid, 'internal error %s: %s\n%s' % (type(e).__name__, e, traceback.format_exc(limit=6)))
    return core.finish(rep)


def main():
    ap = argparse.ArgumentParser()
    ap.add_argument('--property')
    ap.add_argument('--tier', default=os.environ.get('VERIF_TIER') or 'quick', choices=['quick', 'thorough'])
    ap.add_argument('--replay')
    ap.add_argument('--all', action='store_true')
    a = ap.parse_args()
    if a.replay:
        with open(a.replay, encoding='utf-8') as f:
            v = json.load(f)
        print('replaying %s (%s)' % (v.get('key'), v.get('message')))
        code = run_property(v['property'], v.get('tier', 'quick'))
        return code
    if a.all:
        worst = 0
        for p in PROPS:
            worst = max(worst, run_property(p, a.tier))
        return worst
    if not a.property:
        ap.error('--property required')
    return run_property(a.property, a.tier)


if __name__ == '__main__':
    try:
        rc = main()
    except SystemExit:
        raise
    except BrokenPipeError:
        os._exit(1)
    except BaseException as e:   # pylint: disable=broad-except
        print('ANALYSIS-ERROR %s: %s' % (type(e).__name__, e))
        traceback.print_exc()
        rc = 2
    try:
        sys.stdout.flush()
    except BrokenPipeError:
        os._exit(rc)
    sys.exit(rc)

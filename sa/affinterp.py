"""Path interpreter over integer-affine values (flow.Aff) with linear path facts (flow.Facts).

A function body is run on symbolic integers; comparisons that the facts of the path neither entail nor
contradict fork the path with the comparison (or its negation) added.  Values: Aff, bool, None, str/bytes
constants, python dicts/tuples of such values, Opaque.  Supported: assignments to names / attributes (by
text) / tuple targets, if / elif / else, conditional expressions, max / min / abs-free arithmetic (+, -,
unary -), dict and tuple literals with .get / subscript / membership on decided keys, `is None`, boolean
operators, raise, return.  Everything else is an AnalysisError (fail closed).  Nothing is executed."""
import ast

from .core import AnalysisError, norm
from .flow import Aff, Facts, cmp_to_constraints


class Opaque:
    def __init__(self, why=''):
        self.why = why

    def __repr__(self):
        return 'Opaque(%s)' % self.why


class PyRaise(Exception):
    """the interpreted code raises here (e.g. an ordering comparison of None with a number: TypeError)"""

    def __init__(self, exc):
        Exception.__init__(self, exc)
        self.exc = exc


class Outcome:
    def __init__(self, kind, value, env, facts, line):
        self.kind, self.value, self.env, self.facts, self.line = kind, value, env, facts, line


class Interp:
    def __init__(self, site, consts=None, call_hook=None, max_paths=2000):
        self.site = site
        self.consts = consts or (lambda name: None)     # name -> (value,) or None
        self.call_hook = call_hook                      # (interp, call, env, facts) -> [(value, facts)] or None
        self.max_paths = max_paths
        self.count = 0

    # -- expressions: [(value, facts)]
    def ev(self, e, env, facts):
        if isinstance(e, ast.Constant):
            v = e.value
            if isinstance(v, bool) or v is None or isinstance(v, (str, bytes)):
                return [(v, facts)]
            if isinstance(v, int):
                return [(Aff.const(v), facts)]
        if isinstance(e, (ast.Name, ast.Attribute)):
            key = norm(e)
            if key in env:
                return [(env[key], facts)]
            c = self.consts(key)
            if c is not None:
                v = c[0]
                return [(Aff.const(v) if isinstance(v, int) and not isinstance(v, bool) else v, facts)]
            raise AnalysisError('%s: %s outside the modelled environment' % (self.site, key))
        if isinstance(e, ast.UnaryOp) and isinstance(e.op, ast.USub):
            return [(-v if isinstance(v, Aff) else self._bad(e), f) for v, f in self.ev(e.operand, env, facts)]
        if isinstance(e, ast.UnaryOp) and isinstance(e.op, ast.Not):
            return [(not t, f) for t, f in self.cond(e.operand, env, facts)]
        if isinstance(e, ast.BinOp) and isinstance(e.op, (ast.Add, ast.Sub)):
            out = []
            for l, f1 in self.ev(e.left, env, facts):
                for r, f2 in self.ev(e.right, env, f1):
                    if not (isinstance(l, Aff) and isinstance(r, Aff)):
                        self._bad(e)
                    out.append((l + r if isinstance(e.op, ast.Add) else l - r, f2))
            return out
        if isinstance(e, ast.IfExp):
            out = []
            for t, f1 in self.cond(e.test, env, facts):
                out += self.ev(e.body if t else e.orelse, env, f1)
            return out
        if isinstance(e, (ast.Compare, ast.BoolOp)):
            return list(self.cond(e, env, facts))
        if isinstance(e, ast.Dict):
            outs = [({}, facts)]
            for k, v in zip(e.keys, e.values):
                nxt = []
                for d, f0 in outs:
                    for kv, f1 in self.ev(k, env, f0):
                        for vv, f2 in self.ev(v, env, f1):
                            d2 = dict(d)
                            d2[self._key(kv, k)] = vv
                            nxt.append((d2, f2))
                outs = nxt
            return outs
        if isinstance(e, (ast.Tuple, ast.List)):
            outs = [((), facts)]
            for x in e.elts:
                outs = [(t + (v,), f2) for t, f1 in outs for v, f2 in self.ev(x, env, f1)]
            return outs
        if isinstance(e, ast.Subscript):
            out = []
            for b, f1 in self.ev(e.value, env, facts):
                for k, f2 in self.ev(e.slice, env, f1):
                    if isinstance(b, dict) and self._key(k, e.slice) in b:
                        out.append((b[self._key(k, e.slice)], f2))
                    elif isinstance(b, tuple) and isinstance(k, Aff) and k.is_const() and -len(b) <= k.k < len(b):
                        out.append((b[k.k], f2))
                    else:
                        self._bad(e)
            return out
        if isinstance(e, ast.Call):
            if self.call_hook is not None:
                r = self.call_hook(self, e, env, facts)
                if r is not None:
                    return r
            fn = norm(e.func)
            if fn in ('max', 'min') and len(e.args) == 2 and not e.keywords:
                out = []
                for a, f1 in self.ev(e.args[0], env, facts):
                    for b, f2 in self.ev(e.args[1], env, f1):
                        if not (isinstance(a, Aff) and isinstance(b, Aff)):
                            self._bad(e)
                        for t, f3 in self.cmp(a, ast.GtE(), b, f2):
                            big, small = (a, b) if t else (b, a)
                            out.append((big if fn == 'max' else small, f3))
                return out
            if fn == 'int' and len(e.args) == 1:
                return self.ev(e.args[0], env, facts)
            if isinstance(e.func, ast.Attribute) and e.func.attr == 'get' and 1 <= len(e.args) <= 2 and not e.keywords:
                out = []
                for b, f1 in self.ev(e.func.value, env, facts):
                    if not isinstance(b, dict):
                        self._bad(e)
                    for k, f2 in self.ev(e.args[0], env, f1):
                        kk = self._key(k, e.args[0])
                        if kk in b:
                            out.append((b[kk], f2))
                        elif len(e.args) == 2:
                            out += self.ev(e.args[1], env, f2)
                        else:
                            out.append((None, f2))
                return out
        self._bad(e)

    def _key(self, v, node):
        if isinstance(v, Aff):
            if not v.is_const():
                raise AnalysisError('%s: container key %s is not a decided constant' % (self.site, norm(node)))
            return v.k
        if isinstance(v, (str, bytes, bool)) or v is None:
            return v
        raise AnalysisError('%s: container key %s is not a constant' % (self.site, norm(node)))

    def _bad(self, e):
        raise AnalysisError('%s: expression outside the affine vocabulary: %s' % (self.site, norm(e)[:70]))

    # -- conditions: [(bool, facts)]
    def cond(self, t, env, facts):
        if isinstance(t, ast.BoolOp):
            isand = isinstance(t.op, ast.And)
            res = []

            def rec(i, fx):
                for truth, f2 in self.cond(t.values[i], env, fx):
                    if truth != isand or i == len(t.values) - 1:
                        res.append((truth, f2))
                    else:
                        rec(i + 1, f2)
            rec(0, facts)
            return res
        if isinstance(t, ast.UnaryOp) and isinstance(t.op, ast.Not):
            return [(not a, f) for a, f in self.cond(t.operand, env, facts)]
        if isinstance(t, ast.Compare):
            # chains: a < b < c
            out = [(True, facts, None)]
            left = t.left
            results = [(True, facts)]
            for op, right in zip(t.ops, t.comparators):
                nxt = []
                for truth, f0 in results:
                    if not truth:
                        nxt.append((False, f0))
                        continue
                    for l, f1 in self.ev(left, env, f0):
                        for r, f2 in self.ev(right, env, f1):
                            nxt += self.cmp(l, op, r, f2, t)
                results = nxt
                left = right
            _ = out
            return results
        out = []
        for v, f in self.ev(t, env, facts):
            if isinstance(v, bool):
                out.append((v, f))
            elif v is None:
                out.append((False, f))
            elif isinstance(v, Aff):
                out += [(not z, f2) for z, f2 in self.cmp(v, ast.Eq(), Aff.const(0), f)]
            elif isinstance(v, (str, bytes, dict, tuple)):
                out.append((bool(v), f))
            else:
                raise AnalysisError('%s: truth of %s is not determined' % (self.site, norm(t)[:60]))
        return out

    def cmp(self, l, op, r, facts, node=None):
        if isinstance(op, (ast.Lt, ast.LtE, ast.Gt, ast.GtE)) and ((l is None and isinstance(r, Aff)) or (r is None and isinstance(l, Aff))):
            raise PyRaise('TypeError')
        if isinstance(op, (ast.Is, ast.IsNot)):
            if r is None or l is None:
                res = l is None and r is None
                return [(res if isinstance(op, ast.Is) else not res, facts)]
        if isinstance(op, (ast.In, ast.NotIn)) and isinstance(r, (dict, tuple)):
            keys = list(r) if isinstance(r, dict) else [x.k if isinstance(x, Aff) and x.is_const() else x for x in r]
            lk = l.k if isinstance(l, Aff) and l.is_const() else l
            if isinstance(lk, Aff) or any(isinstance(k, Aff) for k in keys):
                raise AnalysisError('%s: membership of a symbolic value is not determined' % self.site)
            res = lk in keys
            return [(res if isinstance(op, ast.In) else not res, facts)]
        if isinstance(l, Aff) and isinstance(r, Aff):
            if isinstance(op, ast.NotEq):
                return [(not a, f) for a, f in self.cmp(l, ast.Eq(), r, facts)]
            cs = cmp_to_constraints(l, op, r)
            if cs is None:
                raise AnalysisError('%s: comparison operator not supported' % self.site)
            d = l - r
            if d.is_const():
                k = d.k
                return [({ast.Lt: k < 0, ast.LtE: k <= 0, ast.Gt: k > 0, ast.GtE: k >= 0, ast.Eq: k == 0}[type(op)], facts)]
            if all(facts.entails(c) for c in cs):
                return [(True, facts)]
            if any(facts.contradicts(c) for c in cs):
                return [(False, facts)]
            self.count += 1
            if self.count > self.max_paths:
                raise AnalysisError('%s: too many paths' % self.site)
            out = []
            ft = facts
            for c in cs:
                ft = ft.add(c)
            out.append((True, ft))
            for c in cs:
                out.append((False, facts.add((-c) - 1)))
            return [(t, f) for t, f in out if not f.inconsistent()]
        if isinstance(op, (ast.Eq, ast.NotEq)) and not isinstance(l, (Aff, Opaque)) and not isinstance(r, (Aff, Opaque)):
            res = l == r
            return [(res if isinstance(op, ast.Eq) else not res, facts)]
        if isinstance(op, (ast.Eq, ast.NotEq)) and (l is None or r is None):
            # an integer is never None
            return [(isinstance(op, ast.NotEq), facts)]
        raise AnalysisError('%s: comparison outside the affine vocabulary: %s' % (self.site, norm(node)[:60] if node is not None else op))

    # -- statements
    def run(self, stmts, env, facts):
        """-> [Outcome] (kind: 'fall' / 'return' / 'raise')"""
        states = [(dict(env), facts)]
        done = []
        for st in stmts:
            nxt = []
            for env1, f1 in states:
                for o in self.step(st, env1, f1):
                    if o.kind == 'fall':
                        nxt.append((o.env, o.facts))
                    else:
                        done.append(o)
            states = nxt
        return done + [Outcome('fall', None, e, f, None) for e, f in states]

    def bind(self, target, value, env):
        if isinstance(target, (ast.Name, ast.Attribute)):
            env[norm(target)] = value
        elif isinstance(target, (ast.Tuple, ast.List)) and isinstance(value, tuple) and len(value) == len(target.elts):
            for t, v in zip(target.elts, value):
                self.bind(t, v, env)
        else:
            raise AnalysisError('%s: assignment target outside the affine vocabulary: %s' % (self.site, norm(target)[:50]))

    def step(self, st, env, facts):
        try:
            return self._step(st, env, facts)
        except PyRaise as x:
            return [Outcome('raise', x.exc, env, facts, getattr(st, 'lineno', None))]

    def _step(self, st, env, facts):
        if isinstance(st, (ast.Pass,)) or (isinstance(st, ast.Expr) and isinstance(st.value, ast.Constant)):
            return [Outcome('fall', None, env, facts, None)]
        if isinstance(st, (ast.Assign, ast.AnnAssign)):
            if isinstance(st, ast.AnnAssign) and st.value is None:
                return [Outcome('fall', None, env, facts, None)]
            targets = st.targets if isinstance(st, ast.Assign) else [st.target]
            out = []
            for v, f in self.ev(st.value, env, facts):
                e2 = dict(env)
                for t in targets:
                    self.bind(t, v, e2)
                out.append(Outcome('fall', None, e2, f, None))
            return out
        if isinstance(st, ast.AugAssign) and isinstance(st.op, (ast.Add, ast.Sub)):
            b = ast.BinOp(left=st.target, op=st.op, right=st.value)
            out = []
            for v, f in self.ev(b, env, facts):
                e2 = dict(env)
                self.bind(st.target, v, e2)
                out.append(Outcome('fall', None, e2, f, None))
            return out
        if isinstance(st, ast.If):
            out = []
            for truth, f2 in self.cond(st.test, env, facts):
                out += self.run(st.body if truth else st.orelse, dict(env), f2)
            return out
        if isinstance(st, ast.Return):
            if st.value is None:
                return [Outcome('return', None, env, facts, st.lineno)]
            return [Outcome('return', v, env, f, st.lineno) for v, f in self.ev(st.value, env, facts)]
        if isinstance(st, ast.Raise):
            exc = st.exc.func if isinstance(st.exc, ast.Call) else st.exc
            return [Outcome('raise', norm(exc) if exc is not None else '', env, facts, st.lineno)]
        if isinstance(st, ast.Assert):
            return [Outcome('fall', None, env, facts, None)]
        if isinstance(st, ast.Expr) and isinstance(st.value, ast.Call) and self.call_hook is not None:
            # a call for its effect: only what the hook models (it may record the effect in the environment)
            e2 = dict(env)
            r = self.call_hook(self, st.value, e2, facts)
            if r is not None:
                return [Outcome('fall', None, dict(e2), f, None) for _v, f in r]
        raise AnalysisError('%s: statement outside the affine vocabulary: %s' % (self.site, norm(st)[:60]))

"""Constant folding for pure expressions (extension of Module.fold): literal containers, comprehensions over
constants, a whitelist of side-effect free builtins and the constants of the `string` module.  Used for
module/class level tables that are *computed* from literals (e.g. {c: i for i, c in enumerate(digits + letters)}).
The evaluator walks the syntax tree itself; nothing of the repository is executed or imported."""
import ast
import string as _string


class NotConstant(Exception):
    pass


_STRING_CONSTS = {n: getattr(_string, n) for n in ('digits', 'ascii_letters', 'ascii_lowercase', 'ascii_uppercase', 'hexdigits',
                                                   'octdigits', 'punctuation', 'whitespace', 'printable')}
_PURE = {
    'len': len, 'ord': ord, 'chr': chr, 'min': min, 'max': max, 'sum': sum, 'abs': abs, 'sorted': sorted, 'reversed': lambda x: list(reversed(x)),
    'enumerate': lambda x, start=0: list(enumerate(x, start)), 'zip': lambda *a: list(zip(*a)), 'range': lambda *a: list(_range(*a)),
    'dict': dict, 'list': list, 'tuple': tuple, 'slice': slice, 'set': frozenset, 'frozenset': frozenset, 'str': str, 'int': int, 'bool': bool,
}
_STR_METHODS = {'lower', 'upper', 'strip', 'lstrip', 'rstrip', 'split', 'join', 'replace', 'format', 'encode', 'startswith', 'endswith', 'isdigit', 'isalpha', 'isspace'}
_LIMIT = 100000


def _range(*a):
    r = range(*a)
    if len(r) > _LIMIT:
        raise NotConstant('range too large')
    return r


class Evaluator:
    def __init__(self, lookup):
        self.lookup = lookup      # name -> (value,) or None
        self.funcs = getattr(lookup, 'funcs', None)      # name -> FunctionDef of a module-level function, or None
        self.depth = 0

    def ev(self, e, env):
        m = getattr(self, 'ev_' + type(e).__name__, None)
        if m is None:
            raise NotConstant(type(e).__name__)
        return m(e, env)

    def ev_Constant(self, e, env):
        return e.value

    def ev_Name(self, e, env):
        if e.id in env:
            return env[e.id]
        v = self.lookup(e.id)
        if v is not None:
            return v[0]
        raise NotConstant(e.id)

    def ev_Attribute(self, e, env):
        if isinstance(e.value, ast.Name) and e.value.id == 'string' and e.attr in _STRING_CONSTS and 'string' not in env:
            return _STRING_CONSTS[e.attr]
        v = self.lookup(ast.unparse(e))
        if v is not None:
            return v[0]
        raise NotConstant(ast.unparse(e))

    def ev_Tuple(self, e, env):
        return tuple(self.ev(x, env) for x in e.elts)

    def ev_List(self, e, env):
        return [self.ev(x, env) for x in e.elts]

    def ev_Set(self, e, env):
        return frozenset(self.ev(x, env) for x in e.elts)

    def ev_Dict(self, e, env):
        out = {}
        for k, v in zip(e.keys, e.values):
            if k is None:
                out.update(self.ev(v, env))
            else:
                out[self.ev(k, env)] = self.ev(v, env)
        return out

    def ev_UnaryOp(self, e, env):
        v = self.ev(e.operand, env)
        if isinstance(e.op, ast.USub):
            return -v
        if isinstance(e.op, ast.Not):
            return not v
        raise NotConstant('unary')

    def ev_BinOp(self, e, env):
        l, r = self.ev(e.left, env), self.ev(e.right, env)
        try:
            if isinstance(e.op, ast.Add):
                return l + r
            if isinstance(e.op, ast.Sub):
                return l - r
            if isinstance(e.op, ast.Mult):
                if isinstance(l, (str, bytes, list, tuple)) and isinstance(r, int) and r * len(l) > _LIMIT:
                    raise NotConstant('too large')
                return l * r
            if isinstance(e.op, ast.Mod):
                return l % r
            if isinstance(e.op, ast.FloorDiv):
                return l // r
            if isinstance(e.op, ast.BitOr):
                return l | r
            if isinstance(e.op, ast.BitAnd):
                return l & r
        except NotConstant:
            raise
        except Exception as ex:    # pylint: disable=broad-except
            raise NotConstant(str(ex))
        raise NotConstant('binop')

    def ev_BoolOp(self, e, env):
        v = None
        for x in e.values:
            v = self.ev(x, env)
            if isinstance(e.op, ast.And) and not v:
                return v
            if isinstance(e.op, ast.Or) and v:
                return v
        return v

    def ev_Compare(self, e, env):
        l = self.ev(e.left, env)
        for op, c in zip(e.ops, e.comparators):
            r = self.ev(c, env)
            try:
                ok = {ast.Eq: lambda: l == r, ast.NotEq: lambda: l != r, ast.Lt: lambda: l < r, ast.LtE: lambda: l <= r, ast.Gt: lambda: l > r,
                      ast.GtE: lambda: l >= r, ast.In: lambda: l in r, ast.NotIn: lambda: l not in r, ast.Is: lambda: l is r,
                      ast.IsNot: lambda: l is not r}[type(op)]()
            except Exception as ex:    # pylint: disable=broad-except
                raise NotConstant(str(ex))
            if not ok:
                return False
            l = r
        return True

    def ev_IfExp(self, e, env):
        return self.ev(e.body if self.ev(e.test, env) else e.orelse, env)

    def ev_Subscript(self, e, env):
        v = self.ev(e.value, env)
        try:
            if isinstance(e.slice, ast.Slice):
                lo = None if e.slice.lower is None else self.ev(e.slice.lower, env)
                hi = None if e.slice.upper is None else self.ev(e.slice.upper, env)
                st = None if e.slice.step is None else self.ev(e.slice.step, env)
                return v[lo:hi:st]
            return v[self.ev(e.slice, env)]
        except NotConstant:
            raise
        except Exception as ex:    # pylint: disable=broad-except
            raise NotConstant(str(ex))

    def ev_JoinedStr(self, e, env):
        out = ''
        for v in e.values:
            if isinstance(v, ast.Constant):
                out += v.value
            elif isinstance(v, ast.FormattedValue) and v.conversion == -1 and v.format_spec is None:
                out += str(self.ev(v.value, env))
            else:
                raise NotConstant('fstring')
        return out

    def ev_Call(self, e, env):
        if any(isinstance(a, ast.Starred) for a in e.args) or any(k.arg is None for k in e.keywords):
            raise NotConstant('star args')
        f = e.func
        is_map = isinstance(f, ast.Name) and f.id in ('map', 'filter') and f.id not in env and len(e.args) == 2 and not e.keywords
        args = [None if is_map and i == 0 else self.ev(a, env) for i, a in enumerate(e.args)]
        kw = {k.arg: self.ev(k.value, env) for k in e.keywords}
        if isinstance(f, ast.Name) and f.id not in env and f.id not in _PURE and self.funcs is not None:
            fd = self.funcs(f.id)
            if fd is not None:
                return self.call_pure(fd, args, kw)
        if isinstance(f, ast.Attribute) and isinstance(f.value, ast.Name) and f.value.id == 're' and f.attr == 'escape' and 're' not in env \
                and len(args) == 1 and not kw and isinstance(args[0], (str, bytes)):
            import re as _re
            return _re.escape(args[0])
        if isinstance(f, ast.Name) and f.id in ('map', 'filter') and f.id not in env and len(e.args) == 2 and not kw:
            # map / filter with a pure function written by name (re.escape, a whitelisted builtin, str.strip ...) over a constant sequence
            g = e.args[0]
            xs = list(args[1]) if isinstance(args[1], (list, tuple, str, frozenset)) else None
            if xs is None:
                raise NotConstant('map over ' + ast.unparse(e.args[1]))
            def one(x):
                if isinstance(g, ast.Constant) and g.value is None and f.id == 'filter':
                    return x
                call = ast.Call(func=g, args=[ast.Constant(value=x)], keywords=[])
                if isinstance(g, ast.Attribute) and isinstance(g.value, ast.Name) and g.value.id in ('str', 'bytes') and g.attr in _STR_METHODS:
                    call = ast.Call(func=ast.Attribute(value=ast.Constant(value=x), attr=g.attr, ctx=ast.Load()), args=[], keywords=[])
                return self.ev(call, env)
            if not all(isinstance(x, (str, bytes, int, tuple)) for x in xs):
                raise NotConstant('map over non-constants')
            return [one(x) for x in xs] if f.id == 'map' else [x for x in xs if one(x)]
        try:
            if isinstance(f, ast.Name) and f.id in _PURE and f.id not in env:
                return _PURE[f.id](*args, **kw)
            if isinstance(f, ast.Attribute) and f.attr in _STR_METHODS:
                recv = self.ev(f.value, env)
                if isinstance(recv, (str, bytes)):
                    return getattr(recv, f.attr)(*args, **kw)
            if isinstance(f, ast.Attribute) and f.attr in ('items', 'keys', 'values', 'get', 'copy'):
                recv = self.ev(f.value, env)
                if isinstance(recv, dict):
                    r = getattr(recv, f.attr)(*args, **kw)
                    return list(r) if f.attr in ('items', 'keys', 'values') else r
        except NotConstant:
            raise
        except Exception as ex:    # pylint: disable=broad-except
            raise NotConstant(str(ex))
        raise NotConstant('call ' + ast.unparse(f))

    def call_pure(self, fd, args, kw):
        """a module-level function whose body is `[docstring]; return <expression>`: the expression over its parameters"""
        body = [s for s in fd.body if not (isinstance(s, ast.Expr) and isinstance(s.value, ast.Constant))]
        if fd.decorator_list:
            raise NotConstant('call of ' + fd.name)
        simple = len(body) == 1 and isinstance(body[0], ast.Return) and body[0].value is not None
        a = fd.args
        if a.kwonlyargs or a.kwarg or a.posonlyargs:
            raise NotConstant('signature of ' + fd.name)
        names = [p.arg for p in a.args]
        env = {}
        import copy as _copy
        args = [_copy.deepcopy(x) for x in args]       # the callee may fill containers it was given: never the model's own objects
        kw = {k: _copy.deepcopy(v) for k, v in kw.items()}
        if len(args) > len(names) and a.vararg is None:
            raise NotConstant('arity of ' + fd.name)
        for n, v in zip(names, args):
            env[n] = v
        if a.vararg is not None:
            env[a.vararg.arg] = tuple(args[len(names):])
        for k, v in kw.items():
            if k not in names or k in env:
                raise NotConstant('keyword of ' + fd.name)
            env[k] = v
        defaults = dict(zip(names[len(names) - len(a.defaults):], a.defaults)) if a.defaults else {}
        for n in names:
            if n not in env:
                if n not in defaults:
                    raise NotConstant('missing argument of ' + fd.name)
                env[n] = self.ev(defaults[n], {})
        self.depth += 1
        if self.depth > 8:
            raise NotConstant('recursion')
        try:
            if simple:
                return self.ev(body[0].value, env)
            # a table builder: local assignments, loops over constants, stores into local containers, one result
            self.steps = 0
            r = self.run_block(body, env)
            if r is None:
                raise NotConstant('no return value in ' + fd.name)
            return r[0]
        finally:
            self.depth -= 1

    def run_block(self, stmts, env):
        """straight-line / looping code over constants with local effects only; -> (value,) at a return, else None"""
        for st in stmts:
            self.steps = getattr(self, 'steps', 0) + 1
            if self.steps > 20000:
                raise NotConstant('too many steps')
            if isinstance(st, ast.Expr) and isinstance(st.value, ast.Constant):
                continue
            if isinstance(st, ast.Return):
                return (self.ev(st.value, env) if st.value is not None else None,)
            if isinstance(st, (ast.Assign, ast.AnnAssign)):
                if isinstance(st, ast.AnnAssign) and st.value is None:
                    continue
                v = self.ev(st.value, env)
                for t in (st.targets if isinstance(st, ast.Assign) else [st.target]):
                    if isinstance(t, ast.Subscript) and isinstance(t.value, ast.Name) and t.value.id in env and isinstance(env[t.value.id], (dict, list)):
                        env[t.value.id][self.ev(t.slice, env)] = v       # a local container (created in this call)
                    else:
                        self._bind(t, v, env)
                continue
            if isinstance(st, ast.AugAssign) and isinstance(st.target, ast.Name) and st.target.id in env:
                env[st.target.id] = self.ev(ast.BinOp(left=st.target, op=st.op, right=st.value), env)
                continue
            if isinstance(st, ast.For) and not st.orelse:
                for item in list(self.ev(st.iter, env)):
                    self._bind(st.target, item, env)
                    r = self.run_block(st.body, env)
                    if r is not None:
                        return r
                continue
            if isinstance(st, ast.If):
                r = self.run_block(st.body if self.ev(st.test, env) else st.orelse, env)
                if r is not None:
                    return r
                continue
            if isinstance(st, ast.Expr) and isinstance(st.value, ast.Call) and isinstance(st.value.func, ast.Attribute) \
                    and isinstance(st.value.func.value, ast.Name) and st.value.func.value.id in env \
                    and isinstance(env[st.value.func.value.id], (list, dict)) and st.value.func.attr in ('append', 'extend', 'update', 'setdefault', 'insert'):
                getattr(env[st.value.func.value.id], st.value.func.attr)(*[self.ev(a, env) for a in st.value.args])
                continue
            if isinstance(st, ast.Pass):
                continue
            raise NotConstant('statement ' + type(st).__name__)
        return None

    # comprehensions
    def _gen(self, gens, env, emit):
        if not gens:
            emit(env)
            return
        g = gens[0]
        it = self.ev(g.iter, env)
        n = 0
        for item in it:
            n += 1
            if n > _LIMIT:
                raise NotConstant('comprehension too large')
            env2 = dict(env)
            self._bind(g.target, item, env2)
            if all(self.ev(c, env2) for c in g.ifs):
                self._gen(gens[1:], env2, emit)

    def _bind(self, target, value, env):
        if isinstance(target, ast.Name):
            env[target.id] = value
        elif isinstance(target, (ast.Tuple, ast.List)):
            vals = list(value)
            if len(vals) != len(target.elts):
                raise NotConstant('unpack')
            for t, v in zip(target.elts, vals):
                self._bind(t, v, env)
        else:
            raise NotConstant('target')

    def ev_ListComp(self, e, env):
        out = []
        self._gen(e.generators, env, lambda en: out.append(self.ev(e.elt, en)))
        return out

    ev_GeneratorExp = ev_ListComp

    def ev_SetComp(self, e, env):
        out = []
        self._gen(e.generators, env, lambda en: out.append(self.ev(e.elt, en)))
        return frozenset(out)

    def ev_DictComp(self, e, env):
        out = {}

        def emit(en):
            out[self.ev(e.key, en)] = self.ev(e.value, en)
        self._gen(e.generators, env, emit)
        return out


def evaluate(e, lookup, env=None):
    return Evaluator(lookup).ev(e, dict(env or {}))

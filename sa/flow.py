"""E4 -- small dataflow domains: affine forms with difference-bound entailment, definite
assignment, generic forward must/may analyses on the CFG."""
import ast
from fractions import Fraction

from .core import AnalysisError, norm
from . import cfg as cfgmod


# ---- affine forms --------------------------------------------------------------------------------

class Aff:
    """c0 + sum(ci * xi) with integer coefficients"""
    __slots__ = ('c', 'k')

    def __init__(self, c=None, k=0):
        self.c = dict(c or {})
        self.k = k

    @staticmethod
    def var(name):
        return Aff({name: 1}, 0)

    @staticmethod
    def const(k):
        return Aff({}, k)

    def __add__(self, o):
        o = o if isinstance(o, Aff) else Aff.const(o)
        c = dict(self.c)
        for v, a in o.c.items():
            c[v] = c.get(v, 0) + a
            if c[v] == 0:
                del c[v]
        return Aff(c, self.k + o.k)

    def __neg__(self):
        return Aff({v: -a for v, a in self.c.items()}, -self.k)

    def __sub__(self, o):
        o = o if isinstance(o, Aff) else Aff.const(o)
        return self + (-o)

    def scale(self, n):
        return Aff({v: a * n for v, a in self.c.items()}, self.k * n)

    def is_const(self):
        return not self.c

    def __eq__(self, o):
        return isinstance(o, Aff) and self.c == o.c and self.k == o.k

    def __hash__(self):
        return hash((tuple(sorted(self.c.items())), self.k))

    def __repr__(self):
        parts = []
        for v, a in sorted(self.c.items()):
            parts.append(('%s' % v) if a == 1 else ('-%s' % v) if a == -1 else '%d*%s' % (a, v))
        if self.k or not parts:
            parts.append(str(self.k))
        return ' + '.join(parts).replace('+ -', '- ')


class Facts:
    """conjunction of constraints  e >= 0  (e affine, integer variables).  Entailment is decided for
    the difference-bound fragment (at most two variables with coefficients +1/-1) by shortest
    paths; anything else is 'unknown'."""

    def __init__(self, items=()):
        self.items = list(items)

    def add(self, e):
        return Facts(self.items + [e])

    @staticmethod
    def _infeasible(cons):
        """Fourier-Motzkin over the rationals: is  {e >= 0 for e in cons}  empty?  (sound for integers)"""
        cons = [(dict(e.c), Fraction(e.k)) for e in cons]
        for _ in range(64):
            # constant constraints
            rest = []
            for c, k in cons:
                c = {v: a for v, a in c.items() if a != 0}
                if not c:
                    if k < 0:
                        return True
                    continue
                rest.append((c, k))
            cons = rest
            if not cons:
                return False
            # pick the variable with the fewest pos*neg products
            vs = {}
            for c, _k in cons:
                for v, a in c.items():
                    p, n = vs.get(v, (0, 0))
                    vs[v] = (p + (a > 0), n + (a < 0))
            v = min(vs, key=lambda x: vs[x][0] * vs[x][1])
            pos = [(c, k) for c, k in cons if c.get(v, 0) > 0]
            neg = [(c, k) for c, k in cons if c.get(v, 0) < 0]
            oth = [(c, k) for c, k in cons if c.get(v, 0) == 0]
            new = list(oth)
            for cp, kp in pos:
                for cn, kn in neg:
                    a, b = Fraction(cp[v]), Fraction(-cn[v])
                    comb = {}
                    for w in set(cp) | set(cn):
                        if w == v:
                            continue
                        comb[w] = Fraction(cp.get(w, 0)) * b + Fraction(cn.get(w, 0)) * a
                    new.append((comb, kp * b + kn * a))
            if len(new) > 4000:
                return False
            cons = new
        return False

    def entails(self, e):
        """True if the facts imply e >= 0 (integers); False if not provable"""
        return self._infeasible(self.items + [(-e) - 1])

    def contradicts(self, e):
        """True if facts imply NOT (e >= 0)"""
        return self._infeasible(self.items + [e])

    def inconsistent(self):
        return self._infeasible(self.items)

    def __repr__(self):
        return ' ∧ '.join('%r ≥ 0' % e for e in self.items) or 'true'


def cmp_to_constraints(l, op, r):
    """(l op r) for affine l, r -> list of affine e with e >= 0 (conjunction), or None"""
    if isinstance(op, ast.Lt):
        return [r - l - 1]
    if isinstance(op, ast.LtE):
        return [r - l]
    if isinstance(op, ast.Gt):
        return [l - r - 1]
    if isinstance(op, ast.GtE):
        return [l - r]
    if isinstance(op, ast.Eq):
        return [l - r, r - l]
    return None


# ---- definite assignment --------------------------------------------------------------------------

def _defs_uses(node):
    d, u = set(), set()
    a = node.ast
    if a is None or node.kind in ('join', 'finally', 'dispatch', 'break', 'continue', 'entry', 'exit', 'raise_exit'):
        return d, u
    if node.kind == 'fortest':
        for n in ast.walk(a.target):
            if isinstance(n, ast.Name):
                d.add(n.id)
        return d, u
    if node.kind == 'handler':
        if a.name:
            d.add(a.name)
        return d, u
    if node.kind == 'def':
        d.add(a.name)
        return d, u
    if node.kind == 'with':
        for it in a.items:
            for n in ast.walk(it.context_expr):
                if isinstance(n, ast.Name) and isinstance(n.ctx, ast.Load):
                    u.add(n.id)
            if it.optional_vars is not None:
                for n in ast.walk(it.optional_vars):
                    if isinstance(n, ast.Name):
                        d.add(n.id)
        return d, u
    comp_targets = set()
    for n in ast.walk(a):
        if isinstance(n, ast.comprehension):
            for m in ast.walk(n.target):
                if isinstance(m, ast.Name):
                    comp_targets.add(m.id)
    lam_args = set()
    for n in ast.walk(a):
        if isinstance(n, ast.Lambda):
            for x in n.args.args:
                lam_args.add(x.arg)
    for n in ast.walk(a):
        if isinstance(n, (ast.Import, ast.ImportFrom)):
            for al in n.names:
                d.add((al.asname or al.name).split('.')[0])
        if isinstance(n, ast.Name):
            if isinstance(n.ctx, ast.Store):
                d.add(n.id)
            elif isinstance(n.ctx, ast.Load) and n.id not in comp_targets and n.id not in lam_args:
                u.add(n.id)
            elif isinstance(n.ctx, ast.Del):
                pass
    return d, u


def possibly_unbound(fnode, g=None):
    """[(name, lineno)] uses of a local that is not assigned on every path reaching the use"""
    g = g or cfgmod.CFG(fnode)
    a = fnode.args
    params = {x.arg for x in a.posonlyargs + a.args + a.kwonlyargs}
    if a.vararg:
        params.add(a.vararg.arg)
    if a.kwarg:
        params.add(a.kwarg.arg)
    info = {}
    local_names = set()
    for n in g.nodes:
        d, u = _defs_uses(n)
        info[n.id] = (d, u)
        local_names |= d
    local_names -= params
    # names also used in nested functions are still locals; globals declared are not
    for n in ast.walk(fnode):
        if isinstance(n, (ast.Global, ast.Nonlocal)):
            local_names -= set(n.names)
    ALL = frozenset(local_names)
    live = g.live_nodes()
    IN = {n.id: ALL for n in g.nodes}
    OUT = {n.id: ALL for n in g.nodes}
    IN[g.entry.id] = frozenset()
    OUT[g.entry.id] = frozenset()
    changed = True
    while changed:
        changed = False
        for n in g.nodes:
            if n.id == g.entry.id or n.id not in live:
                continue
            ps = [p for p, _ in g.pred[n.id] if p in live]
            i = frozenset.intersection(*(OUT[p] for p in ps)) if ps else ALL
            o = i | frozenset(info[n.id][0] & local_names)
            if i != IN[n.id] or o != OUT[n.id]:
                IN[n.id], OUT[n.id] = i, o
                changed = True
    res = set()
    for n in g.nodes:
        if n.id not in live:
            continue
        for name in info[n.id][1]:
            if name in local_names and name not in IN[n.id]:
                res.add((name, n.lineno))
    return sorted(res, key=lambda x: (x[1], x[0]))

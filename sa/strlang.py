"""E3 -- writer templates: abstract interpretation of string-building code.

The interpreter evaluates the Python subset the repository uses to *build strings* over an
abstract domain of templates (literals, slots, concatenation, repetition, joins).  Optional
inputs, boolean flags and predicates on the content of a slot split the evaluation into
*worlds*; each world yields one template plus the refinements of the slot languages that hold
in it.  Nothing of the repository is executed.
"""
import ast
import re

from . import rx
from .core import AnalysisError, norm, mangle


# ---- template terms -------------------------------------------------------------------------

class T:
    pass


class Lit(T):
    def __init__(self, v):
        self.v = v

    def __repr__(self):
        return 'Lit(%r)' % self.v


class Slot(T):
    def __init__(self, path):
        self.path = path

    def __repr__(self):
        return 'Slot(%s)' % self.path


class Cat(T):
    def __init__(self, items):
        self.items = items

    def __repr__(self):
        return 'Cat(%r)' % (self.items,)


class Alt(T):
    def __init__(self, items):
        self.items = items

    def __repr__(self):
        return 'Alt(%r)' % (self.items,)


class Star(T):
    def __init__(self, item, src=None, minn=0):
        self.item = item
        self.src = src
        self.minn = minn

    def __repr__(self):
        return '%s(%r)' % ('Plus' if self.minn else 'Star', self.item)


class Refine(T):
    """the strings of `term` for which the predicate `test` (on the expression text `var`) is `pol`"""

    def __init__(self, term, test, var, pol):
        self.term, self.test, self.var, self.pol = term, test, var, pol

    def __repr__(self):
        return 'Refine(%r | %s%s)' % (self.term, '' if self.pol else 'not ', norm(self.test))


class Tagged(T):
    """a sub-term whose extent is marked as group `tag`"""

    def __init__(self, term, tag):
        self.term, self.tag = term, tag

    def __repr__(self):
        return 'Tagged(%s: %r)' % (self.tag, self.term)


class RStrip(T):
    def __init__(self, term, chars):
        self.term, self.chars = term, chars

    def __repr__(self):
        return 'RStrip(%r, %r)' % (self.term, self.chars)


class RStripLines(RStrip):
    """'\\n'.join(line.rstrip(chars) for line in term.split('\\n')): every line of the text loses its trailing characters of the set"""
    per_line = True

    def __repr__(self):
        return 'RStripLines(%r, %r)' % (self.term, self.chars)


class LinesOf:
    """term.split('\\n') (not yet joined again); ops: per-line operations applied by a comprehension"""

    def __init__(self, term, ops=()):
        self.term, self.ops = term, tuple(ops)


class AccMark(T):
    """start-of-iteration value of an accumulator inside a loop body"""

    def __init__(self, name):
        self.name = name

    def __repr__(self):
        return 'AccMark(%s)' % self.name


class Join(T):
    """sep.join(items): item (sep item)*   (minn=0: possibly empty)"""

    def __init__(self, sep, item, src, minn=1):
        self.sep, self.item, self.src, self.minn = sep, item, src, minn

    def __repr__(self):
        return 'Join(%r,%r,src=%s)' % (self.sep, self.item, self.src)


# ---- other abstract values --------------------------------------------------------------------

class ListOf:
    """homogeneous list; item is a term/value or ('shape', shape, path)"""

    def __init__(self, item, src):
        self.item, self.src = item, src

    def __repr__(self):
        return 'ListOf(%r,src=%s)' % (self.item, self.src)


class Obj:
    def __init__(self, path, shape):
        self.path, self.shape = path, shape

    def __repr__(self):
        return 'Obj(%s)' % self.path


class _None:
    def __repr__(self):
        return 'None'


NONE = _None()


class BoolUnknown:
    def __init__(self, path):
        self.path = path


class Closure:
    def __init__(self, node, env):
        self.node, self.env = node, env


class IntUnknown:
    def __init__(self, path):
        self.path = path


class Opaque:
    """a value the template domain does not track"""

    def __init__(self, why=''):
        self.why = why

    def __repr__(self):
        return 'Opaque(%s)' % self.why


# shapes: ('str',) ('bool',) ('opt', shape) ('list', shape) ('tuple', [shapes]) ('rec', {field: shape})
#         ('dict', keyshape, valueshape)

def mk(path, shape):
    k = shape[0]
    if k == 'str':
        return Slot(path)
    if k == 'bool':
        return BoolUnknown(path)
    if k == 'int':
        return IntUnknown(path)
    if k in ('list', 'list+'):
        lo = ListOf(('shape', shape[1], path + '[]'), path)
        if k == 'list+':
            lo.nonempty = True
        return lo
    if k == 'dict':
        return Obj(path, shape)
    if k in ('opt', 'tuple', 'rec'):
        return Obj(path, shape)
    raise AnalysisError('bad shape %r' % (shape,))


def cat(*xs):
    out = []
    for x in xs:
        if isinstance(x, Cat):
            out += x.items
        elif isinstance(x, Lit) and x.v == '':
            continue
        elif isinstance(x, Lit) and out and isinstance(out[-1], Lit):
            out[-1] = Lit(out[-1].v + x.v)
        else:
            out.append(x)
    if not out:
        return Lit('')
    if len(out) == 1:
        return out[0]
    return Cat(out)


class World(Exception):
    """an undecided question: (key, description)"""


class Raised(Exception):
    """the interpreted code raises in this world"""

    def __init__(self, what):
        Exception.__init__(self, what)
        self.what = what


class NotTemplate(AnalysisError):
    pass


def _nt(node, why=''):
    return NotTemplate('template not extractable at line %s: %s %s' % (getattr(node, 'lineno', '?'), norm(node)[:70], why))


def class_helpers(module, cls, skip=()):
    """the plain methods of one class as the `methods` table of Interp (properties and the functions named in skip left out)"""
    out = {}
    cd = module.classes.get(cls)
    if cd is None:
        return out
    for st in cd.body:
        if isinstance(st, ast.FunctionDef) and st.name not in skip:
            decs = [norm(d) for d in st.decorator_list]
            if any(d not in ('staticmethod', 'classmethod') for d in decs):
                continue
            if any(isinstance(n, (ast.Yield, ast.YieldFrom)) for n in ast.walk(st)):
                continue
            out[st.name] = (st, 'static' if 'staticmethod' in decs else 'class' if 'classmethod' in decs else 'instance')
    return out


def class_tables(module, cls):
    """the class-level constants of one class that a writer may read: texts, and small tables (dict / tuple) of texts keyed by constants
    -- as the `tables` of Interp (name as written in the class body -> value)"""
    out = {}
    for nm, v in (module.consts.get(cls, {}) or {}).items():
        if isinstance(v, str):
            out[nm] = v
        elif isinstance(v, dict) and all(isinstance(k, (str, int, bool, type(None))) for k in v) and all(isinstance(x, str) for x in v.values()):
            out[nm] = dict(v)
        elif isinstance(v, (tuple, list)) and all(isinstance(x, str) for x in v):
            out[nm] = tuple(v)
    return out


class Interp:
    def __init__(self, decisions, cls=None, call_hook=None, depth=4, cond_hook=None, subscript_hook=None, methods=None, tables=None):
        self.tables = tables or {}    # class-level constant -> text / table of texts (read as <Class>.NAME, cls.NAME, self.NAME)
        self.methods = methods or {}  # name -> (FunctionDef, 'static' | 'class' | 'instance'): helpers of the class, interpreted in place
        self.dec = decisions          # key -> bool
        self.cls = cls                # class name for private-name mangling / self fields
        self.call_hook = call_hook
        self.cond_hook = cond_hook            # (interp, test, env) -> bool | NotImplemented
        self.subscript_hook = subscript_hook  # (interp, node, env) -> value | NotImplemented
        self.depth = depth
        self.preds = []               # (slot_path, test_ast, varname_text, polarity) refinements of this world
        self.yields = []
        self.trace = []

    # -- helpers
    def decide(self, key, desc=''):
        if key not in self.dec:
            raise World(key, desc)
        return self.dec[key]

    def item_of(self, lst):
        it = lst.item
        if isinstance(it, tuple) and it and it[0] == 'shape':
            return mk(it[2], it[1])
        return it

    def resolve(self, v):
        if isinstance(v, Obj) and v.shape[0] == 'opt':
            if self.decide(('present', v.path), 'is %s present' % v.path):
                return self.resolve(mk(v.path, v.shape[1]))
            return NONE
        return v

    def field(self, base, key, node):
        base = self.resolve(base)
        if not isinstance(base, Obj):
            raise _nt(node, '(field %r of %r)' % (key, base))
        if base.shape[0] == 'rec':
            if isinstance(key, int) and '__order__' in base.shape[1] and 0 <= key < len(base.shape[1]['__order__']):
                key = base.shape[1]['__order__'][key]          # a named tuple: the field at that position
            if key not in base.shape[1] or key == '__order__':
                raise _nt(node, '(unknown field %r of %s)' % (key, base.path))
            return mk('%s.%s' % (base.path, key), base.shape[1][key])
        if base.shape[0] == 'tuple':
            return mk('%s.%d' % (base.path, key), base.shape[1][key])
        raise _nt(node)

    # -- expressions
    def ev(self, e, env):
        if isinstance(e, ast.Constant):
            if e.value is None:
                return NONE
            if isinstance(e.value, (str, bytes)):
                return Lit(e.value)
            if isinstance(e.value, bool):
                return e.value
            if isinstance(e.value, int):
                return e.value
            raise _nt(e)
        if isinstance(e, ast.Name):
            if e.id not in env:
                raise _nt(e, '(unbound name)')
            return env[e.id]
        if isinstance(e, ast.JoinedStr):
            parts = []
            for v in e.values:
                if isinstance(v, ast.Constant):
                    parts.append(Lit(v.value))
                elif isinstance(v, ast.FormattedValue) and v.conversion in (-1, 115) and v.format_spec is None:
                    parts.append(self.as_str(self.ev(v.value, env), v))
                else:
                    raise _nt(e, '(format spec / conversion)')
            return cat(*parts)
        if isinstance(e, ast.BinOp) and isinstance(e.op, ast.Add):
            l, r = self.ev(e.left, env), self.ev(e.right, env)
            if isinstance(l, ListOf) or isinstance(r, ListOf):
                raise _nt(e, '(list concatenation)')
            return cat(self.as_str(l, e), self.as_str(r, e))
        if isinstance(e, ast.BinOp) and isinstance(e.op, ast.Mult):
            l, r = self.ev_soft(e.left, env), self.ev_soft(e.right, env)
            for a, b in ((l, r), (r, l)):
                if isinstance(a, Lit) and not isinstance(b, (T, ListOf)):
                    if isinstance(b, int) and not isinstance(b, bool):
                        return Lit(a.v * b)
                    return Star(a)
            raise _nt(e, '(multiplication)')
        if isinstance(e, ast.BinOp) and isinstance(e.op, ast.Mod):
            fmt = self.ev(e.left, env)
            if not isinstance(fmt, Lit):
                raise _nt(e, '(format string is not constant)')
            arg = e.right
            if isinstance(arg, ast.Tuple):
                args = [self.ev(a, env) for a in arg.elts]
            else:
                v = self.resolve(self.ev(arg, env))
                if isinstance(v, Obj) and v.shape[0] == 'tuple':
                    args = [mk('%s.%d' % (v.path, i), sh) for i, sh in enumerate(v.shape[1])]
                else:
                    args = [v]
            parts = re.split(r'(%[sd%])', fmt.v)
            out, i = [], 0
            for p in parts:
                if p in ('%s', '%d'):
                    if i >= len(args):
                        raise _nt(e, '(too few format arguments)')
                    out.append(self.as_str(args[i], e))
                    i += 1
                elif p == '%%':
                    out.append(Lit('%'))
                elif p:
                    if '%' in p:
                        raise _nt(e, '(unsupported format directive)')
                    out.append(Lit(p))
            if i != len(args):
                raise _nt(e, '(format argument count)')
            return cat(*out)
        if isinstance(e, ast.IfExp):
            return self.ev(e.body if self.cond(e.test, env) else e.orelse, env)
        if isinstance(e, ast.Dict) and all(isinstance(k, ast.Constant) for k in e.keys):
            return {k.value: self.ev(v, env) for k, v in zip(e.keys, e.values)}       # a small local table with constant keys
        if isinstance(e, ast.Subscript) and isinstance(e.value, ast.Name) and isinstance(env.get(e.value.id), dict) and isinstance(e.slice, ast.Constant):
            tbl = env[e.value.id]
            if e.slice.value not in tbl:
                raise Raised('KeyError %r' % (e.slice.value,))
            return tbl[e.slice.value]
        if isinstance(e, ast.Subscript):
            if self.subscript_hook is not None:
                r = self.subscript_hook(self, e, env)
                if r is not NotImplemented:
                    return r
            base = self.resolve(self.ev(e.value, env))
            if isinstance(base, dict) and base and all(isinstance(k_, bool) for k_ in base) and not isinstance(e.slice, ast.Constant):
                # a two-entry table indexed by a truth value (`PREFIX[not enabled]`): the entry of the truth value this world decides
                k_ = self.cond(e.slice, env)
                if k_ not in base:
                    raise Raised('KeyError %r' % (k_,))
                return base[k_]
            try:
                key = ast.literal_eval(e.slice)
            except ValueError:
                raise _nt(e, '(non-constant subscript)')
            r = self.field(base, key, e)
            if isinstance(r, Obj) and r.shape[0] == 'opt':
                # d[key] on a present-or-absent entry: KeyError when absent; treat as present
                if not self.decide(('present', r.path), 'is %s present' % r.path):
                    raise Raised('KeyError %s' % r.path)
                return self.resolve(r)
            return r
        if isinstance(e, ast.Attribute):
            if isinstance(e.value, ast.Name) and e.value.id in ('self', 'cls', self.cls) and e.attr in self.methods \
                    and (e.value.id not in env or e.value.id in ('self', 'cls')):
                # a helper of the class taken as a value (map(Class.helper, xs)): bound to its receiver unless static
                node, kind = self.methods[e.attr]
                if not (node.args.vararg or node.args.kwarg or node.args.kwonlyargs or node.args.defaults):
                    c_ = Closure(node, {})
                    if kind != 'static':
                        if e.value.id not in env:
                            raise _nt(e, '(unbound method)')
                        c_.bound = [env[e.value.id]]
                    return c_
            if isinstance(e.value, ast.Name) and e.value.id in (self.cls, 'cls', 'self') and e.attr in self.tables and not (e.value.id in env and e.value.id == self.cls):
                tv_ = self.tables[e.attr]
                if isinstance(tv_, str):
                    return Lit(tv_)
                if isinstance(tv_, dict):
                    return {k_: Lit(v_) for k_, v_ in tv_.items()}
            basev = self.ev(e.value, env)
            attr = e.attr
            if isinstance(e.value, ast.Name) and e.value.id == 'self' and self.cls:
                # private names are stored unmangled in the shape
                pass
            return self.field(basev, attr, e)
        if isinstance(e, ast.Lambda):
            return Closure(e, env)
        if isinstance(e, (ast.ListComp, ast.GeneratorExp)):
            if len(e.generators) != 1 or e.generators[0].ifs:
                raise _nt(e, '(comprehension form)')
            g = e.generators[0]
            lst = self.ev(g.iter, env)
            if isinstance(lst, LinesOf) and isinstance(g.target, ast.Name):
                # per-line operation on the lines of a text: identity or rstrip of a constant character set
                v_, el = g.target.id, e.elt
                if isinstance(el, ast.Name) and el.id == v_:
                    return lst
                if isinstance(el, ast.Call) and isinstance(el.func, ast.Attribute) and el.func.attr == 'rstrip' and isinstance(el.func.value, ast.Name) \
                        and el.func.value.id == v_ and not el.keywords and len(el.args) <= 1 and all(isinstance(a_, ast.Constant) and isinstance(a_.value, str) for a_ in el.args):
                    return LinesOf(lst.term, lst.ops + (('rstrip', el.args[0].value if el.args else None),))
                raise _nt(e, '(per-line operation)')
            if not isinstance(lst, ListOf):
                raise _nt(e, '(comprehension over non-list)')
            def one():
                env2 = dict(env)
                self.bind(g.target, self.item_of(lst), env2)
                return self.ev(e.elt, env2)
            lo = ListOf(self.alts(one), lst.src)
            lo.nonempty = getattr(lst, 'nonempty', False)
            if getattr(lst, 'exact_one', False):
                lo.exact_one = True          # one item in, one item out
            return lo
        if isinstance(e, ast.List):
            if not e.elts:
                return ListOf(None, 'local')
            if len(e.elts) == 1:
                lo = ListOf(self.ev(e.elts[0], env), 'literal')
                lo.nonempty = True
                lo.exact_one = True
                return lo
            raise _nt(e, '(list literal)')
        if isinstance(e, ast.Tuple):
            return tuple(self.ev(x, env) for x in e.elts)
        if isinstance(e, ast.Call):
            return self.call_expr(e, env)
        if isinstance(e, ast.UnaryOp) and isinstance(e.op, ast.Not):
            return not self.cond(e.operand, env)
        if isinstance(e, (ast.Compare, ast.BoolOp)):
            return self.cond(e, env)
        raise _nt(e)

    def ev_soft(self, e, env):
        """like ev, but expressions outside the vocabulary evaluate to Opaque"""
        try:
            return self.ev(e, env)
        except (World, Raised):
            raise
        except AnalysisError as x:
            return Opaque(str(x)[:60])

    def as_str(self, v, node):
        v = self.resolve(v)
        if isinstance(v, T):
            return v
        if v is NONE:
            return Lit('None')
        if isinstance(v, IntUnknown):
            return Slot(v.path)
        if isinstance(v, int) and not isinstance(v, bool):
            return Lit(str(v))
        raise _nt(node, '(not a string: %r)' % (v,))

    def call_expr(self, e, env):
        f = e.func
        if self.call_hook is not None:
            r = self.call_hook(self, e, env)
            if r is not NotImplemented:
                return r
        if norm(f) in ('io.StringIO', 'StringIO') and not e.args:
            return Lit('')
        if isinstance(f, ast.Attribute):
            if f.attr == 'getvalue' and not e.args and isinstance(f.value, ast.Name) and isinstance(env.get(f.value.id), T):
                return env[f.value.id]
            if f.attr in ('rstrip',) and len(e.args) == 1 and isinstance(e.args[0], ast.Constant) and isinstance(e.args[0].value, str):
                v = self.ev(f.value, env)
                if isinstance(v, T):
                    return RStrip(v, e.args[0].value)
            if f.attr in ('rjust', 'ljust') and e.args and len(e.args) <= 2:
                v = self.ev(f.value, env)
                fill = ' '
                if len(e.args) == 2:
                    fv = self.ev(e.args[1], env)
                    if not isinstance(fv, Lit) or len(fv.v) != 1:
                        raise _nt(e, '(fill character)')
                    fill = fv.v
                if isinstance(v, T):
                    pad = Star(Lit(fill))
                    return cat(pad, v) if f.attr == 'rjust' else cat(v, pad)
            if f.attr in ('rstrip',) and not e.args and not e.keywords:
                v = self.ev(f.value, env)
                if isinstance(v, T):
                    return RStrip(v, None)       # None: all whitespace
            if f.attr == 'split' and len(e.args) == 1 and isinstance(e.args[0], ast.Constant) and e.args[0].value == '\n' and not e.keywords:
                v = self.ev(f.value, env)
                if isinstance(v, T):
                    return LinesOf(v)
            if f.attr == 'join' and len(e.args) == 1 and isinstance(e.args[0], ast.Call) and norm(e.args[0].func) in ('itertools.chain', 'chain') \
                    and not e.args[0].keywords:
                # ''.join(chain(xs, ys, ...)): the joined texts one after the other (only the empty separator distributes)
                sep = self.ev(f.value, env)
                if not (isinstance(sep, Lit) and sep.v == ''):
                    raise _nt(e, '(chain joined with a non-empty separator)')
                pieces = []
                for a_ in e.args[0].args:
                    one = ast.copy_location(ast.Call(func=f, args=[a_], keywords=[]), e)
                    pieces.append(self.as_str(self.call_expr(one, env), e))
                return cat(*pieces) if pieces else Lit('')
            if f.attr == 'join' and len(e.args) == 1:
                sep = self.ev(f.value, env)
                arg = self.ev(e.args[0], env)
                if isinstance(arg, LinesOf):
                    if not (isinstance(sep, Lit) and sep.v == '\n'):
                        raise _nt(e, '(lines joined with another separator)')
                    out = arg.term
                    for op, chars in arg.ops:
                        out = RStripLines(out, chars)
                    return out
                if isinstance(arg, T) and isinstance(e.args[0], ast.Name) and e.args[0].id in self.__dict__.get('piece_names', ()):
                    if isinstance(sep, Lit) and sep.v == '':
                        return arg
                    st_ = self.__dict__.get('piece_struct', {}).get(e.args[0].id)
                    if st_ is not None and isinstance(sep, Lit) and all(k_[0] == 'one' for k_ in st_[:-1]) and (not st_ or st_[-1][0] in ('one', 'star')):
                        # the pieces are known one by one: fixed pieces, then possibly the pieces of one loop
                        ones = [k_[1] for k_ in st_ if k_[0] == 'one']
                        star = st_[-1] if st_ and st_[-1][0] == 'star' else None
                        out = []
                        for i_, t_ in enumerate(ones):
                            out += ([sep] if i_ else []) + [t_]
                        if star is not None:
                            if ones:
                                out.append(Star(cat(sep, star[1]), star[3], star[2]))
                            else:
                                return Join(sep, star[1], star[3], star[2])
                        return cat(*out) if out else Lit('')
                    raise _nt(e, '(piece list joined with a non-empty separator)')
                if not isinstance(arg, ListOf):
                    raise _nt(e, '(join over non-list)')
                if arg.item is None:
                    return Lit('')
                if getattr(arg, 'exact_one', False):
                    return self.as_str(self.item_of(arg), e)      # a one-element list: no separator is written
                if isinstance(sep, Lit) and sep.v == '':
                    # joined with the empty text: the items one after the other
                    return Star(self.as_str(self.item_of(arg), e), arg.src, 1 if getattr(arg, 'nonempty', False) else 0)
                return Join(sep, self.as_str(self.item_of(arg), e), arg.src, 1 if getattr(arg, 'nonempty', False) else 0)
            if f.attr == 'get' and e.args:
                base = self.resolve(self.ev(f.value, env))
                r = self.field(base, ast.literal_eval(e.args[0]), e)
                return self.resolve(r) if isinstance(r, Obj) and r.shape[0] == 'opt' else r
            if f.attr == 'items' and not e.args:
                base = self.ev(f.value, env)
                if isinstance(base, ListOf):
                    return base
                if isinstance(base, Obj) and base.shape[0] == 'dict':
                    return ListOf(('shape', ('tuple', [base.shape[1], base.shape[2]]), base.path + '[]'), base.path)
                raise _nt(e)
            if f.attr == 'format':
                fmt = self.ev(f.value, env)
                if not isinstance(fmt, Lit):
                    raise _nt(e, '(format string is not constant)')
                args = [self.ev(a, env) for a in e.args]
                kw = {k.arg: self.ev(k.value, env) for k in e.keywords}
                out, auto = [], 0
                for lit, fld, spec, conv in __import__('string').Formatter().parse(fmt.v):
                    if lit:
                        out.append(Lit(lit))
                    if fld is None:
                        continue
                    if spec or conv not in (None, 's'):
                        raise _nt(e, '(format spec)')
                    if fld == '':
                        v = args[auto]
                        auto += 1
                    elif fld.isdigit():
                        v = args[int(fld)]
                    else:
                        if fld not in kw:
                            raise _nt(e, '(format field %s)' % fld)
                        v = kw[fld]
                    out.append(self.as_str(v, e))
                return cat(*out)
            if isinstance(f.value, ast.Name) and f.value.id == 'self' and not e.args and not e.keywords:
                base = env.get('self')
                if isinstance(base, Obj) and base.shape[0] == 'rec' and (f.attr + '()') in base.shape[1]:
                    return self.field(base, f.attr + '()', e)
            # a helper of the same class (self.helper(x), cls.helper(x)): its body is interpreted in place
            m = self.methods.get(f.attr) if isinstance(f.value, ast.Name) and f.value.id in ('self', 'cls', self.cls) else None
            if m is not None and not any(k.arg is None for k in e.keywords) and not any(isinstance(a, ast.Starred) for a in e.args):
                node, kind = m
                a = node.args
                if a.vararg or a.kwarg or a.kwonlyargs:
                    raise _nt(e, '(helper signature)')
                params = [x.arg for x in a.args]
                bound = {}
                if kind != 'static':
                    bound[params[0]] = env.get(f.value.id)
                    params = params[1:]
                for p_, v_ in zip(params, e.args):
                    bound[p_] = self.ev(v_, env)
                for k in e.keywords:
                    if k.arg not in params or k.arg in bound:
                        raise _nt(e, '(helper keyword)')
                    bound[k.arg] = self.ev(k.value, env)
                defaults = dict(zip(params[len(params) - len(a.defaults):], a.defaults))
                for p_ in params:
                    if p_ not in bound:
                        if p_ not in defaults:
                            raise _nt(e, '(helper arity)')
                        bound[p_] = self.ev(defaults[p_], {})
                if len(e.args) > len(params):
                    raise _nt(e, '(helper arity)')
                if self.depth <= 0:
                    raise _nt(e, '(inlining depth)')
                self.depth -= 1
                try:
                    r = self.run(node.body, bound)
                    return r[1] if r is not None and r[0] == 'return' else NONE
                finally:
                    self.depth += 1
            raise _nt(e, '(call)')
        if isinstance(f, ast.Name):
            if f.id == 'map' and len(e.args) == 2:
                fn = self.ev(e.args[0], env)
                lst = self.ev(e.args[1], env)
                if not isinstance(lst, ListOf):
                    raise _nt(e, '(map over non-list)')
                lo = ListOf(self.alts(lambda: self.as_str(self.call(fn, [self.item_of(lst)], e), e)), lst.src)
                lo.nonempty = getattr(lst, 'nonempty', False)
                return lo
            if f.id == 'str' and len(e.args) == 1:
                return self.as_str(self.ev(e.args[0], env), e)
            if f.id == 'int' and len(e.args) == 1 and not e.keywords:
                v = self.resolve(self.ev(e.args[0], env))
                if isinstance(v, Slot):
                    # the number read from a text slot, written back in canonical decimal form: another text than the slot's
                    # (no leading zeros, sign or blanks) -- a slot of its own, whose language the consumer supplies
                    return Slot('int(%s)' % v.path)
            if f.id in ('list', 'tuple', 'sorted', 'iter') and len(e.args) == 1 and not e.keywords:
                v = self.ev(e.args[0], env)
                if isinstance(v, ListOf) and f.id != 'sorted':
                    return v
                raise _nt(e)
            if f.id in env and isinstance(env[f.id], Closure):
                return self.call(env[f.id], [self.ev(a, env) for a in e.args], e)
        raise _nt(e, '(call)')

    def call(self, fn, args, node):
        if not isinstance(fn, Closure):
            raise _nt(node, '(call of non-closure)')
        if self.depth <= 0:
            raise _nt(node, '(inlining depth)')
        n = fn.node
        env = dict(fn.env)
        params = [a.arg for a in n.args.args]
        args = list(getattr(fn, 'bound', ())) + list(args)
        if len(params) != len(args):
            raise _nt(node, '(arity)')
        env.update(zip(params, args))
        self.depth -= 1
        try:
            if isinstance(n, ast.Lambda):
                return self.ev(n.body, env)
            r = self.run(n.body, env)
            return r[1] if r is not None and r[0] == 'return' else NONE
        finally:
            self.depth += 1

    # -- conditions
    def cond(self, test, env):
        if isinstance(test, ast.BoolOp):
            if isinstance(test.op, ast.And):
                for v in test.values:
                    if not self.cond(v, env):
                        return False
                return True
            for v in test.values:
                if self.cond(v, env):
                    return True
            return False
        if isinstance(test, ast.UnaryOp) and isinstance(test.op, ast.Not):
            return not self.cond(test.operand, env)
        if isinstance(test, ast.Compare) and len(test.ops) == 1 and isinstance(test.ops[0], (ast.Is, ast.IsNot)) \
                and isinstance(test.comparators[0], ast.Constant) and test.comparators[0].value is None:
            if self.cond_hook is not None and isinstance(test.left, ast.Call):
                r = self.cond_hook(self, test, env)
                if r is not NotImplemented:
                    return r
            v = self.ev(test.left, env)
            v = self.resolve(v)
            r = v is not NONE
            return r if isinstance(test.ops[0], ast.IsNot) else not r
        if isinstance(test, ast.Constant):
            return bool(test.value)
        if isinstance(test, ast.Name) and test.id in self.__dict__.get('piece_names', ()) and self.__dict__.get('piece_struct', {}).get(test.id) is not None \
                and isinstance(env.get(test.id), T):
            # `if pieces:` -- a list of text pieces is true when it holds a piece
            st_ = self.piece_struct[test.id]
            if any(k_[0] == 'one' or (k_[0] == 'star' and k_[2] >= 1) for k_ in st_):
                return True
            if not st_:
                return False
            return any(self.decide(('nonempty', k_[3]), '%s non-empty' % k_[3]) for k_ in st_)
        if self.cond_hook is not None:
            r = self.cond_hook(self, test, env)
            if r is not NotImplemented:
                return r
        # predicate on the content of one string-valued local (flow-sensitive refinement)
        tn = self._term_names_in(test, env)
        if tn is not None:
            name, val = tn
            key = ('pred', 'term:%s' % name, norm(test), getattr(test, 'lineno', 0))
            r = self.decide(key, '%s on local %s' % (norm(test), name))
            if isinstance(val, Slot):
                self.preds.append((val.path, test, name, r))
            else:
                env[name] = Refine(val, test, name, r)
            return r
        # value-level evaluation
        slots = self._slots_in(test, env)
        if len(slots) == 1:
            name_text, slot = next(iter(slots.items()))
            key = ('pred', slot.path, norm(test).replace(name_text, '$'))
            r = self.decide(key, '%s on %s' % (norm(test), slot.path))
            self.preds.append((slot.path, test, name_text, r))
            return r
        v = self.ev(test, env) if not isinstance(test, (ast.Compare, ast.BoolOp)) else None
        v = self.resolve(v) if v is not None else None
        if isinstance(v, bool):
            return v
        if isinstance(v, BoolUnknown):
            return self.decide(('bool', v.path), v.path)
        if v is NONE:
            return False
        if isinstance(v, ListOf):
            return self.decide(('nonempty', v.src), '%s non-empty' % v.src)
        if isinstance(v, Lit):
            return bool(v.v)
        raise _nt(test, '(condition outside the template vocabulary)')

    def _term_names_in(self, test, env):
        """(name, term) when `test` mentions exactly one plain local name bound to a template term, every
        other leaf being a constant, and the predicate is in the pred_lang vocabulary"""
        names = {n.id for n in ast.walk(test) if isinstance(n, ast.Name) and isinstance(env.get(n.id), T)}
        others = [n for n in ast.walk(test) if isinstance(n, ast.Name) and n.id not in names and n.id not in ('len',)]
        if len(names) != 1 or others:
            return None
        if any(isinstance(n, ast.Attribute) and not (isinstance(n.value, ast.Name) and n.value.id in names) for n in ast.walk(test)):
            return None
        name = next(iter(names))
        if isinstance(env[name], Slot) and False:
            return None
        return name, env[name]

    def _slots_in(self, test, env):
        """sub-expressions (names / attribute chains / subscripts with constant keys) of `test`
        that evaluate to a Slot; only when every other leaf is a constant"""
        found = {}

        def leaf_value(n):
            try:
                v = self.ev(n, env)
                return self.resolve(v)
            except World:
                raise
            except AnalysisError:
                return None

        def visit(n):
            if isinstance(n, (ast.Name, ast.Attribute)) or (isinstance(n, ast.Subscript) and isinstance(n.value, (ast.Name, ast.Attribute))
                                                            and not isinstance(leaf_value(n.value), Slot)):
                v = leaf_value(n)
                if isinstance(v, Slot):
                    found[norm(n)] = v
                    return True
                if isinstance(n, ast.Attribute):
                    # method name on a slot, e.g. value.startswith
                    return visit(n.value)
                return False
            if isinstance(n, ast.Constant):
                return True
            ok = True
            for ch in ast.iter_child_nodes(n):
                if isinstance(ch, (ast.expr_context, ast.operator, ast.cmpop, ast.boolop, ast.unaryop)):
                    continue
                ok = visit(ch) and ok
            return ok
        ok = visit(test)
        return found if ok else {}

    # -- statements
    def bind(self, target, value, env):
        if isinstance(target, ast.Name):
            env[target.id] = value
            return
        if isinstance(target, ast.Tuple):
            value = self.resolve(value)
            if isinstance(value, tuple) and len(value) == len(target.elts):
                for t, v in zip(target.elts, value):
                    self.bind(t, v, env)
                return
            if isinstance(value, Obj) and value.shape[0] == 'tuple' and len(value.shape[1]) == len(target.elts):
                for i, t in enumerate(target.elts):
                    self.bind(t, mk('%s.%d' % (value.path, i), value.shape[1][i]), env)
                return
            if isinstance(value, Obj) and value.shape[0] == 'rec' and len(value.shape[1].get('__order__', ())) == len(target.elts):
                for nm, t in zip(value.shape[1]['__order__'], target.elts):      # unpacking a named tuple
                    self.bind(t, mk('%s.%s' % (value.path, nm), value.shape[1][nm]), env)
                return
        raise _nt(target, '(assignment target)')

    def run(self, body, env):
        """returns ('return', value) / ('continue', None) or None (fell through)"""
        for st in body:
            r = self.exec(st, env)
            if r is not None:
                return r
        return None

    def exec(self, st, env):
        if isinstance(st, (ast.FunctionDef,)):
            env[st.name] = Closure(st, env)
            return None
        if isinstance(st, ast.Expr) and isinstance(st.value, ast.Constant):
            return None
        if isinstance(st, ast.Pass):
            return None
        # a local list of text pieces, joined with '' at the end: `pieces += [a, b]` adds the pieces at the end and
        # `pieces[:0] = [a, b]` in front; the list is represented by the concatenation of its items
        piece_edit = None
        if isinstance(st, ast.AugAssign) and isinstance(st.op, ast.Add) and isinstance(st.target, ast.Name) and isinstance(st.value, ast.List):
            piece_edit = (st.target.id, st.value, 'end')
        if isinstance(st, ast.Assign) and len(st.targets) == 1 and isinstance(st.targets[0], ast.Subscript) and isinstance(st.targets[0].value, ast.Name) \
                and isinstance(st.targets[0].slice, ast.Slice) and st.targets[0].slice.lower is None and st.targets[0].slice.step is None \
                and isinstance(st.targets[0].slice.upper, ast.Constant) and st.targets[0].slice.upper.value == 0 and isinstance(st.value, ast.List):
            piece_edit = (st.targets[0].value.id, st.value, 'front')
        if piece_edit is not None:
            name, lit, where_ = piece_edit
            cur = env.get(name)
            names = self.__dict__.setdefault('piece_names', set())
            if isinstance(cur, ListOf) and not hasattr(cur, 'items'):
                if getattr(cur, 'exact_one', False):
                    cur = self.as_str(self.item_of(cur), st)
                elif cur.item is None:
                    cur = Lit('')
                else:
                    cur = None
                if cur is not None:
                    names.add(name)
            if isinstance(cur, T) and name in names:
                new = [self.as_str(self.ev(x, env), st) for x in lit.elts]
                env[name] = cat(*(new + [cur])) if where_ == 'front' else cat(*([cur] + new))
                self.__dict__.setdefault('piece_struct', {})[name] = None
                return None
        if isinstance(st, ast.Assign) and len(st.targets) == 1 and isinstance(st.targets[0], ast.Name):
            # `pieces = [a, b]` / `pieces = [] if c else [a, b]`: a local list of text pieces (joined with '' later), kept as the
            # concatenation of its items
            def piece_literal(v):
                if isinstance(v, ast.IfExp) and isinstance(v.body, ast.List) and isinstance(v.orelse, ast.List):
                    return piece_literal(v.body if self.cond(v.test, env) else v.orelse)
                if isinstance(v, ast.List) and not any(isinstance(x, ast.Starred) for x in v.elts):
                    return cat(*[self.as_str(self.ev(x, env), st) for x in v.elts]) if v.elts else Lit('')
                return None
            v0 = st.value
            if (isinstance(v0, ast.List) and len(v0.elts) >= 2) or (isinstance(v0, ast.IfExp) and isinstance(v0.body, ast.List) and isinstance(v0.orelse, ast.List)):
                pl = piece_literal(v0)
                if pl is not None:
                    env[st.targets[0].id] = pl
                    self.__dict__.setdefault('piece_names', set()).add(st.targets[0].id)
                    self.__dict__.setdefault('piece_struct', {})[st.targets[0].id] = None
                    return None
        if isinstance(st, ast.Assign) and len(st.targets) == 1:
            tgt = st.targets[0]
            if isinstance(tgt, ast.Name):
                env[tgt.id] = self.ev_soft(st.value, env)
                return None
            if isinstance(tgt, ast.Tuple):
                self.bind(tgt, self.ev(st.value, env), env)
                return None
            raise _nt(st)
        if isinstance(st, ast.Try) and not st.finalbody:
            # the body either raises one of the handled exceptions (handler runs instead) or completes
            k = ('try', st.lineno)
            if self.decide(k, 'try block at line %d raises' % st.lineno):
                if len(st.handlers) != 1:
                    raise _nt(st, '(several handlers)')
                return self.run(st.handlers[0].body, env)
            r = self.run(st.body, env)
            if r is not None:
                return r
            return self.run(st.orelse, env)
        if isinstance(st, ast.Continue):
            return ('continue', None)
        if isinstance(st, ast.AnnAssign) and isinstance(st.target, ast.Name) and st.value is not None:
            env[st.target.id] = self.ev(st.value, env)
            return None
        if isinstance(st, ast.AugAssign) and isinstance(st.op, ast.Add) and isinstance(st.target, ast.Name):
            cur = env.get(st.target.id)
            if cur is None:
                raise _nt(st, '(augmented assignment to unbound name)')
            env[st.target.id] = cat(self.as_str(cur, st), self.as_str(self.ev(st.value, env), st))
            return None
        if isinstance(st, ast.If):
            return self.run(st.body if self.cond(st.test, env) else st.orelse, env)
        if isinstance(st, ast.Return):
            return ('return', self.ev(st.value, env) if st.value is not None else NONE)
        if isinstance(st, ast.Raise):
            raise Raised(norm(st.exc)[:60] if st.exc is not None else 're-raise')
        if isinstance(st, ast.Assert):
            return None
        if isinstance(st, ast.Expr) and isinstance(st.value, ast.Yield):
            self.yields.append(self.ev(st.value.value, env))
            return None
        if isinstance(st, ast.For):
            return self.exec_for(st, env)
        if isinstance(st, ast.Expr) and isinstance(st.value, ast.Call) and isinstance(st.value.func, ast.Attribute) and st.value.func.attr == 'update' \
                and isinstance(st.value.func.value, ast.Name) and isinstance(env.get(st.value.func.value.id), dict) and len(st.value.args) == 1 and not st.value.keywords:
            other = self.ev(st.value.args[0], env)
            if not isinstance(other, dict):
                raise _nt(st, '(update with a non-table)')
            env[st.value.func.value.id] = dict(env[st.value.func.value.id], **other)
            return None
        if isinstance(st, ast.Expr) and isinstance(st.value, ast.Call):
            c = st.value
            f = c.func
            # acc.append(x) on a local list outside a loop is not supported (order matters)
            if isinstance(f, ast.Attribute) and f.attr == 'write' and isinstance(f.value, ast.Name) \
                    and isinstance(env.get(f.value.id), T) and len(c.args) == 1:
                env[f.value.id] = cat(env[f.value.id], self.as_str(self.ev(c.args[0], env), st))
                return None
            if isinstance(f, ast.Attribute) and f.attr == 'append' and isinstance(f.value, ast.Name) \
                    and isinstance(env.get(f.value.id), ListOf) and hasattr(env[f.value.id], 'items') and len(c.args) == 1:
                env[f.value.id].items.append(self.as_str(self.ev(c.args[0], env), st))
                return None
            # a local list used as a piece accumulator (append / extend in program order, joined with '' at the end):
            # the list is represented by the concatenation of its items
            if isinstance(f, ast.Attribute) and f.attr in ('append', 'extend') and isinstance(f.value, ast.Name) and len(c.args) == 1 and not c.keywords:
                name = f.value.id
                cur = env.get(name)
                names = self.__dict__.setdefault('piece_names', set())
                if isinstance(cur, ListOf) and not hasattr(cur, 'items'):
                    if getattr(cur, 'exact_one', False):
                        cur = self.as_str(self.item_of(cur), st)        # [x]: exactly the one piece
                    else:
                        cur = Lit('') if cur.item is None else Star(self.as_str(self.item_of(cur), st), cur.src, 1 if getattr(cur, 'nonempty', False) else 0)
                    names.add(name)
                ps_ = self.__dict__.setdefault('piece_struct', {})
                in_loop_ = isinstance(cur, AccMark) or (isinstance(cur, Cat) and cur.items and isinstance(cur.items[0], AccMark))
                if isinstance(env.get(name), ListOf) and not hasattr(env.get(name), 'items') and not in_loop_:
                    l0_ = env.get(name)
                    ps_[name] = [] if l0_.item is None else ([('one', cur)] if getattr(l0_, 'exact_one', False) else [('star', cur.item, cur.minn if isinstance(cur, Star) else 0, l0_.src)])
                if isinstance(cur, T) and name in names:
                    if f.attr == 'append':
                        piece = self.as_str(self.ev(c.args[0], env), st)
                        if not in_loop_ and ps_.get(name) is not None:
                            ps_[name] = ps_[name] + [('one', piece)]
                        elif not in_loop_:
                            ps_[name] = None
                    else:
                        if not in_loop_:
                            ps_[name] = None        # (refined below for the homogeneous case)
                        lst = self.resolve(self.ev(c.args[0], env))
                        if not isinstance(lst, ListOf):
                            raise _nt(st, '(extend with a non-list)')
                        if getattr(lst, 'exact_one', False):
                            piece = self.as_str(self.item_of(lst), st)
                        else:
                            piece = Lit('') if lst.item is None else Star(self.as_str(self.item_of(lst), st), lst.src, 1 if getattr(lst, 'nonempty', False) else 0)
                    env[name] = cat(cur, piece)
                    return None
            if self.call_hook is not None:
                r = self.call_hook(self, c, env)
                if r is not NotImplemented:
                    return None
            raise _nt(st, '(call statement)')
        raise _nt(st)

    def alts(self, fn):
        """value of fn() as an alternation over the decisions first asked inside it (per-item choices)"""
        res = self.local_worlds(fn)
        if not res:
            raise Raised('every item raises')
        out = []
        for v, _ in res:
            if not any(repr(v) == repr(o) for o in out):
                out.append(v)
        if len(out) == 1:
            return out[0]
        if all(isinstance(o, T) for o in out):
            return Alt(out)
        raise AnalysisError('per-item alternatives are not strings')

    def local_worlds(self, fn):
        """run fn() under every combination of the decisions that are first asked inside it;
        returns [(result, decisions)] of the non-raising combinations"""
        results = []
        stack = [{}]
        saved = self.dec
        n = 0
        while stack:
            extra = stack.pop()
            n += 1
            if n > 512:
                self.dec = saved
                raise AnalysisError('too many local worlds in a loop body')
            self.dec = {**saved, **extra}
            mark = len(self.preds)
            try:
                results.append((fn(), extra))
            except World as q:
                if q.args[0] in saved or q.args[0][0] == 'present':
                    # presence of optional inputs is decided globally (one shape per analysis world)
                    self.dec = saved
                    raise
                stack.append({**extra, q.args[0]: True})
                stack.append({**extra, q.args[0]: False})
                del self.preds[mark:]
            except Raised:
                del self.preds[mark:]
            finally:
                self.dec = saved
        return results

    def exec_for(self, st, env):
        if st.orelse:
            raise _nt(st, '(for/else)')
        lst = self.resolve(self.ev(st.iter, env))
        if isinstance(lst, tuple) and len(lst) <= 8 and not any(isinstance(n, (ast.Break, ast.Continue)) for b in st.body for n in ast.walk(b)):
            # a loop over a literal tuple written in place (a small table that drives the statements): one run of the body per entry
            for item in lst:
                self.bind(st.target, item, env)
                r = self.run(st.body, env)
                if r is not None:
                    return r
            return None
        if not isinstance(lst, ListOf):
            raise _nt(st, '(loop over non-list %r)' % (lst,))
        if lst.item is None:
            return None
        # accumulators: string-valued / list-valued locals modified in the body
        mod = set()
        for n in ast.walk(st):
            if isinstance(n, ast.AugAssign) and isinstance(n.target, ast.Name):
                mod.add(n.target.id)
            if isinstance(n, ast.Call) and isinstance(n.func, ast.Attribute) and n.func.attr in ('write', 'append') \
                    and isinstance(n.func.value, ast.Name):
                mod.add(n.func.value.id)
            if isinstance(n, ast.Assign):
                for t in n.targets:
                    for x in ast.walk(t):
                        if isinstance(x, ast.Name) and isinstance(env.get(x.id), T) and x.id in env:
                            pass
        for a in mod:
            cur = env.get(a)
            if isinstance(cur, ListOf) and cur.item is not None and not hasattr(cur, 'items'):
                # a second loop appending to the same list: from here on the list is a piece accumulator
                env[a] = self.as_str(self.item_of(cur), st) if getattr(cur, 'exact_one', False) else \
                    Star(self.as_str(self.item_of(cur), st), cur.src, 1 if getattr(cur, 'nonempty', False) else 0)
                self.__dict__.setdefault('piece_names', set()).add(a)
        if getattr(self, '_force_pieces', None):
            for a in mod:
                cur = env.get(a)
                if a in self._force_pieces and isinstance(cur, ListOf) and cur.item is None and not hasattr(cur, 'items'):
                    env[a] = Lit('')
                    self.__dict__.setdefault('piece_names', set()).add(a)
        sacc = [a for a in mod if isinstance(env.get(a), T)]
        lacc = [a for a in mod if isinstance(env.get(a), ListOf)]

        def body():
            env2 = dict(env)
            self.bind(st.target, self.item_of(lst), env2)
            for a in sacc:
                env2[a] = AccMark(a)
            for a in lacc:
                env2[a] = ListOf(None, 'acc')
                env2[a].items = []
            r = self.run(st.body, env2)
            if r is not None and r[0] != 'continue':
                raise _nt(st, '(return/break inside a loop)')
            out = {}
            for a in sacc:
                v = env2[a]
                if isinstance(v, AccMark):
                    out[a] = Lit('')
                elif isinstance(v, Cat) and isinstance(v.items[0], AccMark) and not any(isinstance(x, AccMark) for x in v.items[1:]):
                    out[a] = cat(*v.items[1:])
                else:
                    raise _nt(st, '(accumulator %s is not only appended to)' % a)
            for a in lacc:
                out[a] = list(env2[a].items)
            return out
        res = self.local_worlds(body)
        if not res:
            raise Raised('every iteration raises')
        nonempty = getattr(lst, 'nonempty', False)
        for a in sacc:
            contribs = []
            for out, _ in res:
                if not any(repr(out[a]) == repr(c) for c in contribs):
                    contribs.append(out[a])
            item = contribs[0] if len(contribs) == 1 else Alt(contribs)
            ps_ = self.__dict__.setdefault('piece_struct', {})
            if a in self.__dict__.get('piece_names', ()) and ps_.get(a) is not None:
                apps_ = [c_ for c_ in ast.walk(st) if isinstance(c_, ast.Call) and isinstance(c_.func, ast.Attribute) and isinstance(c_.func.value, ast.Name)
                         and c_.func.value.id == a]
                uncond_ = len(apps_) == 1 and apps_[0].func.attr == 'append' and any(isinstance(b_, ast.Expr) and b_.value is apps_[0] for b_ in st.body) \
                    and all(not isinstance(o_, Lit) or o_.v != '' for o_ in contribs)
                if uncond_:
                    ps_[a] = ps_[a] + [('one', item) if getattr(lst, 'exact_one', False) else ('star', item, 1 if nonempty else 0, lst.src)]
                else:
                    ps_[a] = None
            if getattr(lst, 'exact_one', False):
                env[a] = cat(self.as_str(env[a], st), item)
            else:
                env[a] = cat(self.as_str(env[a], st), Star(item, lst.src, 1 if nonempty else 0))
        for a in lacc:
            alts = []
            for out, _ in res:
                if len(out[a]) == 1:
                    if not any(repr(out[a][0]) == repr(c) for c in alts):
                        alts.append(out[a][0])
                elif len(out[a]) > 1:
                    if not getattr(self, '_force_pieces', None) or a not in self._force_pieces:
                        # heterogeneous appends: the list is a piece accumulator (only meaningful when joined with '')
                        self._force_pieces = set(getattr(self, '_force_pieces', None) or ()) | {a}
                        return self.exec_for(st, env)
                    raise _nt(st, '(several appends per iteration)')
            if alts:
                env[a] = ListOf(alts[0] if len(alts) == 1 else Alt(alts), lst.src)
                env[a].nonempty = nonempty and all(len(out[a]) == 1 for out, _ in res)
        return None


def worlds(run, max_worlds=4096):
    """enumerate worlds: run(interp_factory) is called with a decision dict; returns list of
    (decisions, result, interp) for the non-raising worlds and the list of raising worlds"""
    results, raised = [], []
    stack = [{}]
    n = 0
    while stack:
        w = stack.pop()
        n += 1
        if n > max_worlds:
            raise AnalysisError('too many worlds in template extraction')
        try:
            res, it = run(w)
            results.append((w, res, it))
        except World as q:
            key = q.args[0]
            stack.append({**w, key: True})
            stack.append({**w, key: False})
        except Raised as r:
            raised.append((w, r.what))
    return results, raised


# ---- predicates on a string variable -> regular language ----------------------------------------

def pred_lang(test, var, alpha, atom=None):
    """language of the values of the expression whose text is `var` for which `test` is true;
    `atom(t)` may supply the language of consumer-specific atoms (regex matches, constants ...)"""
    anyl = rx.regex_lang('(?s:.*)', 0, 'fullmatch', alpha=alpha)

    def rl(p):
        return rx.regex_lang(p, re.S, 'fullmatch', alpha=alpha)

    def go(t):
        if atom is not None:
            a = atom(t)
            if a is not None:
                return a
        if isinstance(t, ast.Constant) and isinstance(t.value, bool):
            return anyl if t.value else anyl.complement()
        if isinstance(t, ast.BoolOp):
            ls = [go(v) for v in t.values]
            out = ls[0]
            for x in ls[1:]:
                out = out.intersect(x) if isinstance(t.op, ast.And) else out.union(x)
            return out
        if isinstance(t, ast.UnaryOp) and isinstance(t.op, ast.Not):
            return go(t.operand).complement()
        if isinstance(t, ast.Compare) and len(t.ops) == 1 and isinstance(t.ops[0], (ast.Eq, ast.NotEq, ast.Is, ast.IsNot)):
            # <boolean expression> == True / False
            l, r = t.left, t.comparators[0]
            for a_, b_ in ((l, r), (r, l)):
                if isinstance(b_, ast.Constant) and isinstance(b_.value, bool) and isinstance(a_, (ast.Call, ast.Compare, ast.BoolOp, ast.UnaryOp)):
                    inner = go(a_)
                    same = isinstance(t.ops[0], (ast.Eq, ast.Is)) == b_.value
                    return inner if same else inner.complement()
        if norm(t) == var:
            return rl('.+')
        if norm(t) in ('%s.strip()' % var, '%s.lstrip()' % var, '%s.rstrip()' % var):
            return rl(r'.*\S.*')
        if norm(t) == '%s.isspace()' % var:
            return rl(r'\s+')
        if norm(t) == '%s.isdigit()' % var:
            return rl(r'\d+')
        if isinstance(t, ast.Call) and isinstance(t.func, ast.Attribute) and t.func.attr in ('strip', 'lstrip', 'rstrip') and norm(t.func.value) == var \
                and len(t.args) == 1 and isinstance(t.args[0], ast.Constant) and isinstance(t.args[0].value, str) and t.args[0].value:
            # non-empty after stripping the given characters <=> some character is outside the set
            return rl('.*[^' + ''.join(re.escape(ch) for ch in t.args[0].value) + '].*')
        if isinstance(t, ast.Compare) and len(t.ops) == 1:
            l, op, r = t.left, t.ops[0], t.comparators[0]
            if isinstance(r, ast.Constant) and isinstance(r.value, str):
                c = r.value
                res = None
                if norm(l) == var:
                    res = rl(re.escape(c))
                elif norm(l) == '%s.strip()' % var and c == c.strip():
                    res = rl(r'\s*' + re.escape(c) + r'\s*') if c else rl(r'\s*')
                elif norm(l) == '%s.lstrip()' % var and c == c.lstrip():
                    res = rl(r'\s*' + re.escape(c))
                elif norm(l) == '%s.rstrip()' % var and c == c.rstrip():
                    res = rl(re.escape(c) + r'\s*')
                elif isinstance(l, ast.Subscript) and norm(l.value) == var and isinstance(l.slice, ast.Slice) and l.slice.step is None:
                    # prefix / suffix slices compared with a constant
                    lo = l.slice.lower.value if isinstance(l.slice.lower, ast.Constant) else None if l.slice.lower is not None else 0
                    up = l.slice.upper.value if isinstance(l.slice.upper, ast.Constant) else None if l.slice.upper is not None else 'end'
                    if lo == 0 and isinstance(up, int) and up > 0:
                        res = rl(re.escape(c) + '.*') if len(c) == up else rl(re.escape(c)) if len(c) < up else anyl.complement()
                    elif isinstance(lo, int) and lo < 0 and up == 'end':
                        res = rl('.*' + re.escape(c)) if len(c) == -lo else rl(re.escape(c)) if len(c) < -lo else anyl.complement()
                elif isinstance(l, ast.Subscript) and norm(l.value) == var and len(c) == 1:
                    try:
                        k = ast.literal_eval(l.slice)
                    except ValueError:
                        k = None
                    if k == 0:
                        res = rl(re.escape(c) + '.*')
                    elif k == -1:
                        res = rl('.*' + re.escape(c))
                elif isinstance(l, ast.Call) and norm(l.func) == 'len':
                    pass
                if res is not None:
                    if isinstance(op, ast.Eq):
                        return res
                    if isinstance(op, ast.NotEq):
                        # x[0] != c is an IndexError on the empty string; callers guard with `not x or`
                        return res.complement()
            if isinstance(r, (ast.Tuple, ast.List, ast.Set)) and r.elts and all(isinstance(x, ast.Constant) and isinstance(x.value, str) and len(x.value) == 1 for x in r.elts):
                r = ast.Constant(value=''.join(x.value for x in r.elts))
            if isinstance(r, ast.Constant) and isinstance(r.value, str) and isinstance(op, (ast.In, ast.NotIn)) \
                    and isinstance(l, ast.Subscript) and norm(l.value) == var and norm(l.slice) in ('0', '-1'):
                cls_ = '[' + ''.join(re.escape(ch) for ch in r.value) + ']' if r.value else '(?!)'
                if not r.value:
                    raise AnalysisError('membership in the empty string')
                res = rl(cls_ + '.*') if norm(l.slice) == '0' else rl('.*' + cls_)
                return res if isinstance(op, ast.In) else res.complement()
            if isinstance(r, ast.Constant) and isinstance(r.value, str) and isinstance(op, (ast.In, ast.NotIn)) \
                    and isinstance(l, ast.Subscript) and norm(l.value) == var and isinstance(l.slice, ast.Slice) and l.slice.step is None \
                    and l.slice.lower is None and isinstance(l.slice.upper, ast.Constant) and isinstance(l.slice.upper.value, int) and l.slice.upper.value > 0:
                # x[:k] in "chars": the prefix slice is a substring of the constant -- the empty prefix (of the empty string) always is
                k_, S_ = l.slice.upper.value, r.value
                subs = {S_[i:j] for i in range(len(S_) + 1) for j in range(i, min(len(S_), i + k_) + 1)}
                res = None
                for u in subs:
                    piece = rl(re.escape(u) + '.*') if len(u) == k_ else rl(re.escape(u)) if u else rl('')
                    res = piece if res is None else res.union(piece)
                return res if isinstance(op, ast.In) else res.complement()
            if isinstance(l, ast.Constant) and isinstance(l.value, str) and norm(r) == '%s.strip()' % var and isinstance(op, (ast.In, ast.NotIn)) \
                    and len(l.value) == 1:
                c_ = re.escape(l.value)
                res = rl(r'.*\S.*' + c_ + r'.*\S.*') if l.value.isspace() else rl('.*' + c_ + '.*')
                return res if isinstance(op, ast.In) else res.complement()
            if isinstance(l, ast.Constant) and isinstance(l.value, str) and norm(r) == var and isinstance(op, (ast.In, ast.NotIn)):
                res = rl('.*' + re.escape(l.value) + '.*')
                return res if isinstance(op, ast.In) else res.complement()
            if isinstance(l, ast.Call) and norm(l.func) == 'len' and len(l.args) == 1 and norm(l.args[0]) == var \
                    and isinstance(r, ast.Constant) and isinstance(r.value, int):
                n = r.value
                table = {ast.Eq: '.{%d}' % n, ast.Gt: '.{%d,}' % (n + 1), ast.GtE: '.{%d,}' % n,
                         ast.Lt: '.{0,%d}' % max(n - 1, 0) if n > 0 else None, ast.LtE: '.{0,%d}' % n}
                p = table.get(type(op))
                if p is not None:
                    return rl(p)
                if isinstance(op, ast.NotEq):
                    return rl('.{%d}' % n).complement()
        if isinstance(t, ast.Call) and isinstance(t.func, ast.Attribute) and t.func.attr == 'startswith' and len(t.args) == 1 \
                and isinstance(t.args[0], ast.Constant) and isinstance(t.args[0].value, str) and isinstance(t.func.value, ast.Call) \
                and isinstance(t.func.value.func, ast.Attribute) and t.func.value.func.attr in ('lstrip', 'strip') \
                and not t.func.value.args and norm(t.func.value.func.value) == var and t.args[0].value and not t.args[0].value[0].isspace():
            return rl(r'\s*' + re.escape(t.args[0].value) + '.*')
        if isinstance(t, ast.Call) and isinstance(t.func, ast.Attribute) and norm(t.func.value) == var and len(t.args) == 1 \
                and isinstance(t.args[0], ast.Constant) and isinstance(t.args[0].value, str):
            c = re.escape(t.args[0].value)
            if t.func.attr == 'startswith':
                return rl(c + '.*')
            if t.func.attr == 'endswith':
                return rl('.*' + c)
        raise AnalysisError('predicate outside the supported vocabulary: %s' % norm(t))
    _ = anyl
    return go(test)


# ---- term -> automaton ------------------------------------------------------------------------

class TBuilder:
    """builds an NFA over Σ ∪ markers from a term; slots are embedded DFAs"""

    def __init__(self, alpha, markers, slot_lang, tags):
        self.alpha = alpha
        self.markers = list(markers)
        self.slot_lang = slot_lang     # path -> Lang (callable)
        self.tags = tags               # path or 'join(src)' -> marker group name
        self.eps, self.tr, self.mk = [], [], []
        self.used = set()
        self.preserve = None           # slot paths wrapped in ('open'/'close', '@p') markers wherever they occur

    def new(self):
        self.eps.append([])
        self.tr.append([])
        self.mk.append([])
        return len(self.eps) - 1

    def lit(self, cur, text):
        for ch in (text if self.alpha.kind == 'str' else [bytes([b]) for b in text]):
            i = self.alpha.idx.get(ch)
            if i is None:
                raise AnalysisError('literal character %r outside the symbolic alphabet' % ch)
            n = self.new()
            self.tr[cur].append((1 << i, n))
            cur = n
        return cur

    def embed(self, cur, lang):
        base = len(self.eps)
        for _ in lang.trans:
            self.new()
        end = self.new()
        for q, row in enumerate(lang.trans):
            by = {}
            for s in range(self.alpha.n):
                by[row[s]] = by.get(row[s], 0) | (1 << s)
            for t, m in by.items():
                self.tr[base + q].append((m, base + t))
            if lang.acc[q]:
                self.eps[base + q].append(end)
        self.eps[cur].append(base)
        return end

    def embed_marked(self, cur, lang):
        """embed a DFA over Σ ∪ markers (same marker list as this builder)"""
        if list(lang.markers) != self.markers:
            raise AnalysisError('internal: embedded automaton has other markers')
        base = len(self.eps)
        for _ in lang.trans:
            self.new()
        end = self.new()
        nA = self.alpha.n
        co = rx._coacc(lang)
        for q, row in enumerate(lang.trans):
            if q not in co:
                continue
            by = {}
            for s in range(nA):
                if row[s] in co:
                    by[row[s]] = by.get(row[s], 0) | (1 << s)
            for t, m in by.items():
                self.tr[base + q].append((m, base + t))
            for k, mkr in enumerate(self.markers):
                if row[nA + k] in co:
                    self.mk[base + q].append((mkr, base + row[nA + k]))
            if lang.acc[q]:
                self.eps[base + q].append(end)
        self.eps[cur].append(base)
        return end

    def tagged(self, cur, tag, inner, in_repeat):
        if tag is not None and not in_repeat and ('open', tag) in self.markers:
            if tag in self.used:
                raise AnalysisError('slot %s occurs twice in the template' % tag)
            self.used.add(tag)
            n0 = self.new()
            self.mk[cur].append((('open', tag), n0))
            e = inner(n0)
            n1 = self.new()
            self.mk[e].append((('close', tag), n1))
            return n1
        return inner(cur)

    def term(self, t, cur, in_repeat=False):
        if isinstance(t, Lit):
            return self.lit(cur, t.v)
        if isinstance(t, Slot):
            lang = self.slot_lang(t.path)
            if isinstance(lang, T):
                return self.term(lang, cur, in_repeat)     # structured slot: expand in place
            if self.preserve is not None and t.path in self.preserve:
                n0 = self.new()
                self.mk[cur].append((('open', '@p'), n0))
                e = self.embed(n0, lang)
                n1 = self.new()
                self.mk[e].append((('close', '@p'), n1))
                return n1
            return self.tagged(cur, self.tags.get(t.path), lambda c: self.embed(c, lang), in_repeat)
        if isinstance(t, Cat):
            for x in t.items:
                cur = self.term(x, cur, in_repeat)
            return cur
        if isinstance(t, Alt):
            end = self.new()
            before, after = set(self.used), set(self.used)
            for x in t.items:
                # alternatives are exclusive: each may write a tagged slot once
                self.used = set(before)
                a = self.new()
                self.eps[cur].append(a)
                self.eps[self.term(x, a, in_repeat)].append(end)
                after |= self.used
            self.used = after
            return end
        if isinstance(t, Star):
            if t.minn:
                cur = self.term(t.item, cur, True)
            loop = self.new()
            self.eps[cur].append(loop)
            e = self.term(t.item, loop, True)
            self.eps[e].append(loop)
            return loop
        if isinstance(t, Tagged):
            return self.tagged(cur, t.tag, lambda c: self.term(t.term, c, in_repeat), in_repeat)
        if isinstance(t, Refine):
            base = TBuilder(self.alpha, [], self.slot_lang, {}).lang(t.term)
            pl = pred_lang(t.test, t.var, self.alpha)
            return self.embed(cur, base.intersect(pl if t.pol else pl.complement()))
        if isinstance(t, RStrip):
            per_line = getattr(t, 'per_line', False)
            if in_repeat or not self.markers:
                base = TBuilder(self.alpha, [], self.slot_lang, {}).lang(t.term)
                return self.embed(cur, rstrip_marked(base, t.chars, per_line=True) if per_line else rstrip_lang(base, t.chars))
            # slots inside the stripped term keep their markers: strip on the marked language
            sub = TBuilder(self.alpha, self.markers, self.slot_lang, self.tags)
            sub.used = self.used
            return self.embed_marked(cur, rstrip_marked(sub.lang(t.term), t.chars, per_line=per_line))
        if isinstance(t, Join):
            def inner(c):
                first = self.term(t.item, c, True)
                loop = self.new()
                self.eps[first].append(loop)
                e = self.term(t.sep, loop, True)
                e = self.term(t.item, e, True)
                self.eps[e].append(loop)
                if t.minn == 0:
                    self.eps[c].append(loop)
                return loop
            return self.tagged(cur, self.tags.get('join(%s)' % t.src), inner, in_repeat)
        raise AnalysisError('cannot build automaton for %r' % (t,))

    def lang(self, t):
        s0 = self.new()
        acc = self.term(t, s0)
        nA = self.alpha.n
        mkidx = {m: nA + i for i, m in enumerate(self.markers)}
        for q in range(len(self.mk)):
            for m, _ in self.mk[q]:
                if m not in mkidx:
                    raise AnalysisError('internal: marker %r not declared' % (m,))

        def closure(states):
            st = list(states)
            seen = set(states)
            while st:
                q = st.pop()
                for n in self.eps[q]:
                    if n not in seen:
                        seen.add(n)
                        st.append(n)
            return frozenset(seen)

        def step(S, sym, cache):
            out = set()
            if sym >= nA:
                mk = self.markers[sym - nA]
                for q in S:
                    for m, n in self.mk[q]:
                        if m == mk:
                            out.add(n)
            else:
                for q in S:
                    for mask, n in self.tr[q]:
                        if mask >> sym & 1:
                            out.add(n)
            return closure(out) if out else frozenset()
        masks = {m for trs in self.tr for (m, _n) in trs}
        classes = rx.split_classes([self.alpha.full], masks)
        return rx._determinise(self.alpha, self.markers, closure({s0}), step, lambda S: acc in S, classes)


def rstrip_lang(lang, chars):
    """{ w.rstrip(chars) : w in lang }"""
    alpha = lang.alpha
    cs = [alpha.idx[c] for c in chars] if chars is not None else [i for i, c in enumerate(alpha.syms) if isinstance(c, str) and c.isspace()]
    fin = {q for q, a in enumerate(lang.acc) if a}
    changed = True
    while changed:
        changed = False
        for q in range(len(lang.trans)):
            if q not in fin and any(lang.trans[q][c] in fin for c in cs):
                fin.add(q)
                changed = True

    def step(S, sym):
        q, endc = S
        return (lang.trans[q][sym], sym in cs)
    return rx.from_function(alpha, [], (0, False), step, lambda S: S[0] in fin and not S[1],
                            rx.split_classes(lang.classes(), [1 << c for c in cs]))


def rstrip_marked(lang, chars, per_line=False):
    """{ rstrip(w) : w in lang } on a marked language: the trailing characters of the set are deleted, the
    markers that stood among them are kept (they end up at the end of the text).  per_line: the same for every line of w
    (the trailing characters of each "\\n"-separated line are deleted, the newlines are kept)"""
    alpha = lang.alpha
    nA = alpha.n
    nl = alpha.idx['\n'] if per_line else None
    cs = set(alpha.idx[c] for c in chars) if chars is not None else {i for i, c in enumerate(alpha.syms) if isinstance(c, str) and c.isspace()}

    def close(S):
        # tail mode: deleted characters of the set are read silently
        st = [x for x in S if x[1]]
        seen = set(S)
        while st:
            q, _t, _l = st.pop()
            for c in cs:
                n = (lang.trans[q][c], True, False)
                if n not in seen:
                    seen.add(n)
                    st.append(n)
        return frozenset(seen)

    def start():
        return close({(0, False, False), (0, True, False)})

    def step(S, sym):
        out = set()
        for q, tail, last in S:
            if sym >= nA:
                out.add((lang.trans[q][sym], tail, last))
            elif per_line and sym == nl:
                # a kept newline: the line before it has been stripped (tail mode, or it ends with a character outside the set)
                if tail or not last:
                    n = lang.trans[q][sym]
                    out.add((n, False, False))
                    out.add((n, True, False))
            elif not tail:
                n = lang.trans[q][sym]
                incs = sym in cs
                out.add((n, False, incs))
                if not incs:
                    out.add((n, True, False))     # the kept text may end here
        return close(out)

    def accepting(S):
        return any(lang.acc[q] and (tail or not last) for q, tail, last in S)
    return rx.from_function(alpha, list(lang.markers), start(), step, accepting,
                            rx.split_classes(lang.classes(), [1 << c for c in cs] + ([1 << nl] if per_line else [])))


def rstrip_nodes(term, out=None):
    out = [] if out is None else out
    if isinstance(term, RStrip):
        out.append(term)
        rstrip_nodes(term.term, out)
    elif isinstance(term, (Cat, Alt)):
        for x in term.items:
            rstrip_nodes(x, out)
    elif isinstance(term, Star):
        rstrip_nodes(term.item, out)
    elif isinstance(term, (Refine, Tagged)):
        rstrip_nodes(term.term, out)
    elif isinstance(term, Join):
        rstrip_nodes(term.sep, out)
        rstrip_nodes(term.item, out)
    return out


def strip_loss_witness(term, alpha, slot_lang, preserve):
    """a string (shown with ⟨@p: … :@p⟩ around the slots that must be written verbatim) on which an rstrip() of the
    template deletes a character that belongs to such a slot; None when no rstrip can touch them"""
    markers = [('open', '@p'), ('close', '@p')]
    nA = alpha.n
    for r in rstrip_nodes(term):
        b = TBuilder(alpha, markers, slot_lang, {})
        b.preserve = set(preserve)
        inner = b.lang(r.term)
        cs = set(alpha.idx[c] for c in r.chars) if r.chars is not None else {i for i, c in enumerate(alpha.syms) if isinstance(c, str) and c.isspace()}

        per_line = getattr(r, 'per_line', False)
        nl = alpha.idx['\n']

        def step(s, sym, cs=cs, per_line=per_line):
            inside, hit = s
            if hit == 'lost':
                return s
            if sym == nA:
                return (True, hit)
            if sym == nA + 1:
                return (False, hit)
            if per_line and sym == nl:
                return (inside, 'lost' if hit else False)     # characters of the set right before a newline are deleted
            if sym in cs:
                return (inside, hit or inside)
            return (inside, False)
        mon = rx.from_function(alpha, markers, (False, False), step, lambda s: bool(s[1]), rx.split_classes([alpha.full], [1 << c for c in cs] + [1 << nl]))
        w = inner.intersect(mon).witness()
        if w is not None:
            return w
    return None


def template_langs(term, alpha, slot_lang, tags, groups):
    """(marked, erased) automata of a template term; groups = ordered marker group names"""
    markers = [(k, g) for g in groups for k in ('open', 'close')]
    tm = TBuilder(alpha, markers, slot_lang, tags).lang(term)
    te = TBuilder(alpha, [], slot_lang, {}).lang(term)
    return tm, te


def slots_of(term, out=None):
    out = [] if out is None else out
    if isinstance(term, Slot):
        out.append(term.path)
    elif isinstance(term, (Cat, Alt)):
        for x in term.items:
            slots_of(x, out)
    elif isinstance(term, Star):
        slots_of(term.item, out)
    elif isinstance(term, (Refine, RStrip, Tagged)):
        slots_of(term.term, out)
    elif isinstance(term, Join):
        slots_of(term.sep, out)
        slots_of(term.item, out)
    return out


def show(term):
    if isinstance(term, Lit):
        return repr(term.v)
    if isinstance(term, Slot):
        return '{%s}' % term.path
    if isinstance(term, Cat):
        return ' '.join(show(x) for x in term.items)
    if isinstance(term, Alt):
        return '(' + ' | '.join(show(x) for x in term.items) + ')'
    if isinstance(term, Star):
        return '(%s)%s' % (show(term.item), '+' if term.minn else '*')
    if isinstance(term, Refine):
        return '[%s | %s%s]' % (show(term.term), '' if term.pol else 'not ', norm(term.test))
    if isinstance(term, RStrip):
        return '%s(%s, %r)' % ('rstrip-each-line' if getattr(term, 'per_line', False) else 'rstrip', show(term.term), term.chars)
    if isinstance(term, Tagged):
        return '<%s: %s>' % (term.tag, show(term.term))
    if isinstance(term, Join):
        return 'join(%s; %s)' % (show(term.sep), show(term.item))
    return repr(term)

"""E4 -- linear-use ("piece flow") analyses.

Two abstract interpreters over *positions*:

* StreamPieces: generators that re-group a token stream (BufferingIterator API).  Positions are
  stream offsets relative to the start of one iteration of the main loop; every acquired position
  must be yielded exactly once and in order, or be held (contiguously, as the undischarged suffix) by
  the loop-carried list, which must be flushed after the loop.
* CharPieces: the line tokenizer.  Positions are character offsets into the current line; regex
  groups are consecutive ranges of the match; constants stand for a sliced-off character only under
  the guard that proves the character is there.

Values are positions / ranges / constructor terms; nothing of the repository is executed.
"""
import ast
import copy

from .core import AnalysisError, norm


class Violation(Exception):
    pass


class Unsupported(AnalysisError):
    pass

class Pos:
    def __init__(s, c=0, syms=()): s.c, s.syms = c, tuple(sorted(syms))
    def __add__(s, o):
        if isinstance(o, int): return Pos(s.c + o, s.syms)
        return Pos(s.c + o.c, s.syms + o.syms)
    def __eq__(s, o): return isinstance(o, Pos) and (s.c, s.syms) == (o.c, o.syms)
    def __hash__(s): return hash((s.c, s.syms))
    def __repr__(s): return '+'.join([str(s.c)] + list(s.syms)) if s.syms else str(s.c)

class Item:      # alias of stream position p ; maybe_none: may be None (EOF)
    def __init__(s, p, maybe_none=False): s.p, s.maybe_none = p, maybe_none
    def __repr__(s): return 'Item@%r%s' % (s.p, '?' if s.maybe_none else '')
class Rng:       # aliases of positions [a,b)
    def __init__(s, a, b, nonempty=False): s.a, s.b, s.nonempty = a, b, nonempty
    def __repr__(s): return 'Rng[%r,%r)' % (s.a, s.b)
class Rest:      # everything from a to end of stream
    def __init__(s, a): s.a = a
    def __repr__(s): return 'Rest[%r,..)' % (s.a,)
class Lst:
    def __init__(s, parts): s.parts = list(parts)
    def __repr__(s): return 'Lst%r' % (s.parts,)
class Elem:
    def __init__(s, cls, args): s.cls, s.args = cls, args
    def __repr__(s): return '%s(%s)' % (s.cls, ', '.join(map(repr, s.args)))
class NoneV:
    def __repr__(s): return 'None'
NONE = NoneV()
class Opaque:
    def __init__(s, why=''): s.why = why
    def __repr__(s): return 'Opaque(%s)' % s.why


class State:
    def __init__(s):
        s.env = {}; s.cursor = Pos(0); s.done = Pos(0); s.trace = []; s.facts = {}; s.nsym = 0; s.finished = False
    def clone(s):
        import copy
        t = State(); t.env = dict(s.env); t.cursor = s.cursor; t.done = s.done; t.trace = list(s.trace)
        t.facts = dict(s.facts); t.nsym = s.nsym; t.finished = s.finished
        return t
    def fresh(s, hint):
        s.nsym += 1; return '%s%d' % (hint, s.nsym)

def flatten(v, out):
    if isinstance(v, (Item, Rng, Rest)): out.append(v)
    elif isinstance(v, Lst):
        for p in v.parts: flatten(p, out)
    elif isinstance(v, Elem):
        for a in v.args: flatten(a, out)
    elif isinstance(v, (NoneV,)): pass
    elif isinstance(v, Opaque): raise Unsupported('yield of opaque value ' + v.why)
    else: raise Unsupported(repr(v))

class Analyzer:
    def __init__(self, fn, stream_var, loop_var_elements_known=()):
        self.fn = fn; self.stream = stream_var; self.results = []
    # ---- expression evaluation
    def ev(self, e, st):
        if isinstance(e, ast.Constant):
            return NONE if e.value is None else Opaque('const')
        if isinstance(e, ast.Name):
            if e.id == self.stream: return Opaque('name ' + e.id)
            return st.env.get(e.id, Opaque('name ' + e.id))
        if isinstance(e, ast.List):
            parts = []
            for x in e.elts:
                if isinstance(x, ast.Starred):
                    v = self.ev(x.value, st)
                    if isinstance(v, Opaque) and v.why == 'name ' + self.stream:
                        v = Rest(st.cursor); st.cursor = Pos(10**6)
                    if isinstance(v, Lst): parts.extend(v.parts)
                    elif isinstance(v, (Rng, Rest)): parts.append(v)
                    else: return Opaque('starred ' + norm(x.value))
                else:
                    parts.append(self.ev(x, st))
            return Lst(parts)
        if isinstance(e, ast.Subscript):
            base = self.ev(e.value, st)
            if isinstance(base, Lst):
                sl = e.slice
                if isinstance(sl, ast.Constant) and sl.value == 0: return self.first(base)
                if isinstance(sl, ast.UnaryOp) and isinstance(sl.op, ast.USub) and sl.operand.value == 1: return self.last(base)
                if isinstance(sl, ast.Slice) and sl.upper is None and isinstance(sl.lower, ast.Constant):
                    return self.drop_front(base, sl.lower.value)
            return Opaque('subscript')
        if isinstance(e, ast.Call):
            f = e.func
            fname = norm(f)
            if fname == 'cast': return self.ev(e.args[1], st)
            if fname == 'list': return self.as_list(self.ev(e.args[0], st), st)
            if fname == 'isinstance' or fname == 'len': return Opaque(fname)
            if fname == 'next' and norm(e.args[0]) == self.stream:
                it = Item(st.cursor, maybe_none=len(e.args) > 1); st.cursor = st.cursor + 1; return it
            if isinstance(f, ast.Attribute) and norm(f.value) == self.stream:
                m = f.attr
                if m == 'peek': return Item(st.cursor, True)
                if m == 'peek_many':
                    n = e.args[0].value
                    return Lst([Item(st.cursor + i, True) for i in range(n)])   # may be shorter: handled by len() guards
                if m == 'takewhile':
                    n = st.fresh('n'); r = Rng(st.cursor, st.cursor + Pos(0, (n,))); st.cursor = r.b; return r
                if m == 'consume_many' and len(e.args) == 1 and isinstance(e.args[0], ast.Constant) and isinstance(e.args[0].value, int):
                    k = e.args[0].value
                    items = [Item(st.cursor + i, True) for i in range(k)]; st.cursor = st.cursor + k
                    return Lst(items)
                raise Unsupported('stream method ' + m)
            if isinstance(f, ast.Attribute) and f.attr == 'pop' and not e.args:
                base = self.ev(f.value, st)
                if isinstance(base, Lst) and isinstance(f.value, ast.Name):
                    lastv, rest = self.split_last(base, st)
                    st.env[f.value.id] = rest; return lastv
            if isinstance(f, ast.Attribute) and f.attr == 'pop' and len(e.args) == 1 and isinstance(e.args[0], ast.Constant) and e.args[0].value == 0:
                base = self.ev(f.value, st)
                if isinstance(base, Lst) and isinstance(f.value, ast.Name) and base.parts:
                    firstv = self.first(base)
                    st.env[f.value.id] = self.drop_front(base, 1); return firstv
            if isinstance(f, ast.Name) and f.id[:1].isupper() or (isinstance(f, ast.Name) and f.id in ('_constructor',)):
                return Elem(f.id, [self.ev(a, st) for a in e.args])
            return Opaque('call ' + fname)
        if isinstance(e, (ast.BoolOp, ast.Compare, ast.UnaryOp)):
            return Opaque('bool')
        return Opaque(type(e).__name__)
    def as_list(self, v, st):
        if isinstance(v, (Rng, Rest)): return Lst([v])
        if isinstance(v, Lst): return Lst(v.parts)
        if isinstance(v, Opaque) and v.why == 'name ' + self.stream: 
            r = Rest(st.cursor); return Lst([r])
        return Opaque('list()')
    def first(self, l):
        p = l.parts[0] if l.parts else None
        if isinstance(p, Item): return p
        if isinstance(p, Rng): return Item(p.a)
        return Opaque('first')
    def last(self, l):
        p = l.parts[-1] if l.parts else None
        if isinstance(p, Item): return p
        if isinstance(p, Rng): return Item(p.b + (-1))
        return Opaque('last')
    def drop_front(self, l, k):
        parts = list(l.parts)
        while k and parts:
            p = parts[0]
            if isinstance(p, Item): parts.pop(0); k -= 1
            elif isinstance(p, Rng): parts[0] = Rng(p.a + k, p.b); k = 0
            else: raise Unsupported('drop_front')
        return Lst(parts)
    def split_last(self, l, st):
        parts = list(l.parts); p = parts[-1]
        if isinstance(p, Item): return p, Lst(parts[:-1])
        if isinstance(p, Rng): return Item(p.b + (-1)), Lst(parts[:-1] + [Rng(p.a, p.b + (-1))])
        raise Unsupported('pop')
    # ---- discharge
    def do_yield(self, v, st, node):
        out = []; flatten(v, out)
        for x in out:
            a = x.p if isinstance(x, Item) else x.a
            if not (a == st.done):
                raise Violation('L%d: yield of %r but next undischarged position is %r (dropped/duplicated/reordered piece)' % (node.lineno, x, st.done))
            if isinstance(x, Item): st.done = st.done + 1
            elif isinstance(x, Rng): st.done = x.b
            else: st.done = Pos(10**6); st.cursor = Pos(10**6)   # Rest: consumes everything
        st.trace.append((node.lineno, v))
    # ---- conditions: returns list of (state, bool) feasible
    def branch(self, test, st):
        if isinstance(test, ast.UnaryOp) and isinstance(test.op, ast.Not):
            return [(s2, not v) for s2, v in self.branch(test.operand, st)]
        if isinstance(test, ast.BoolOp):
            isand = isinstance(test.op, ast.And)
            out = []
            def rec(i, s_):
                for s2, v in self.branch(test.values[i], s_):
                    if v != isand or i == len(test.values) - 1: out.append((s2, v))
                    else: rec(i + 1, s2)
            rec(0, st)
            return out
        # the class of a stream item: the same position gives the same answer (peek() and the following next() denote one item)
        if isinstance(test, ast.Call) and norm(test.func) == 'isinstance' and len(test.args) == 2:
            saved = st.cursor
            try:
                v = self.ev(test.args[0], st)
            except Unsupported:
                v = None
            st.cursor = saved           # (evaluating a peek does not move the stream)
            if isinstance(v, Item):
                key = ('isinstance', v.p, norm(test.args[1]))
                if key in st.facts: return [(st, st.facts[key])]
                a, b = st.clone(), st.clone(); a.facts[key] = True; b.facts[key] = False
                return [(a, True), (b, False)]
        # emptiness / None facts
        if isinstance(test, ast.Name):
            v = st.env.get(test.id)
            if isinstance(v, NoneV): return [(st, False)]
            if isinstance(v, Lst):
                if not v.parts: return [(st, False)]
                if any((isinstance(p, Item) and not p.maybe_none) or (isinstance(p, Rng) and p.nonempty) for p in v.parts): return [(st, True)]
                # range of unknown length: fork with fact
                a, b = st.clone(), st.clone()
                b.env[test.id] = Lst([]) if all(isinstance(p, Rng) for p in v.parts) else v
                if all(isinstance(p, Rng) for p in v.parts):
                    for p in v.parts:  # empty range => cursor equalities: substitute symbol=0
                        b = self.zero_len(b, p)
                return [(a, True), (b, False)]
            if isinstance(v, Item): 
                return [(st, True)] if not v.maybe_none else [(st.clone(), True), (self.set_none(st.clone(), test.id), False)]
        if isinstance(test, ast.Compare) and isinstance(test.ops[0], (ast.Is, ast.IsNot)) and isinstance(test.comparators[0], ast.Constant) and test.comparators[0].value is None and isinstance(test.left, ast.Name):
            v = st.env.get(test.left.id); isnot = isinstance(test.ops[0], ast.IsNot)
            if isinstance(v, NoneV): return [(st, not isnot)]
            if isinstance(v, (Item,)) and not v.maybe_none: return [(st, isnot)]
            if isinstance(v, (Elem, Lst)): return [(st, isnot)]
            if isinstance(v, Item):
                return [(st.clone(), isnot), (self.set_none(st.clone(), test.left.id), not isnot)]
        if isinstance(test, ast.Name):
            if test.id in st.facts: return [(st, st.facts[test.id])]
            a, b = st.clone(), st.clone(); a.facts[test.id] = True; b.facts[test.id] = False
            return [(a, True), (b, False)]
        return [(st.clone(), True), (st.clone(), False)]
    def set_none(self, st, name):
        st.env[name] = NONE; return st
    def zero_len(self, st, rng):
        sym = [s for s in rng.b.syms if s not in rng.a.syms]
        if len(sym) != 1:
            if rng.a == rng.b: return st
            raise Unsupported('emptiness of %r' % (rng,))
        k = rng.a.c - rng.b.c          # b = a  =>  sym = a.c - b.c
        def sub(p):
            n_ = sum(1 for s in p.syms if s in sym)
            return Pos(p.c + k * n_, tuple(s for s in p.syms if s not in sym))
        st.cursor = sub(st.cursor); st.done = sub(st.done)
        def subv(v):
            if isinstance(v, Item): return Item(sub(v.p), v.maybe_none)
            if isinstance(v, Rng): return Rng(sub(v.a), sub(v.b), v.nonempty)
            if isinstance(v, Lst): return Lst([subv(p) for p in v.parts])
            if isinstance(v, Elem): return Elem(v.cls, [subv(a) for a in v.args])
            return v
        st.env = {k: subv(v) for k, v in st.env.items()}
        return st
    # ---- statements: returns list of states that fall through
    def run(self, stmts, states):
        for s in stmts:
            nxt = []
            for st in states:
                if st.finished: nxt.append(st); continue
                nxt += self.exec(s, st)
            states = nxt
        return states
    def exec(self, s, st):
        if isinstance(s, ast.Expr) and isinstance(s.value, ast.Constant): return [st]
        if isinstance(s, ast.Expr) and isinstance(s.value, ast.Yield):
            self.do_yield(self.ev(s.value.value, st), st, s); return [st]
        if isinstance(s, ast.Expr) and isinstance(s.value, ast.YieldFrom):
            v = self.ev(s.value.value, st)
            if isinstance(v, Opaque) and v.why == 'name ' + self.stream:
                v = Rest(st.cursor); st.cursor = Pos(10**6)
            e_ = s.value.value
            if getattr(self, 'recurse_attr', None) and isinstance(e_, ast.Call) and isinstance(e_.func, ast.Attribute) and e_.func.attr == self.recurse_attr and not e_.args:
                v = self.ev(e_.func.value, st)     # recursing into an item delivers exactly that item's content
                if not isinstance(v, Item): raise Unsupported('yield from ' + norm(e_))
            if not isinstance(v, (Rng, Lst, Rest, Item)): raise Unsupported('yield from ' + norm(s.value.value))
            self.do_yield(v, st, s); return [st]
        if isinstance(s, ast.Assign) and len(s.targets) == 1:
            t = s.targets[0]; v = self.ev(s.value, st)
            if isinstance(t, ast.Name):
                st.env[t.id] = v; st.facts.pop(t.id, None)
                if isinstance(s.value, ast.Constant) and isinstance(s.value.value, bool): st.facts[t.id] = s.value.value
                return [st]
            if isinstance(t, ast.Tuple) and isinstance(v, Lst) and len(v.parts) == len(t.elts):
                for n, p in zip(t.elts, v.parts): st.env[n.id] = p
                return [st]
            raise Unsupported(norm(s))
        if isinstance(s, ast.AnnAssign):
            st.env[s.target.id] = self.ev(s.value, st); return [st]
        if isinstance(s, ast.If):
            out = []
            for st2, val in self.branch(s.test, st):
                if (norm(s.test), val) in getattr(self, 'exempt', ()):
                    continue
                out += self.run(s.body if val else s.orelse, [st2])
            return out
        if isinstance(s, ast.Continue) or isinstance(s, ast.Return):
            st.finished = 'continue' if isinstance(s, ast.Continue) else 'return'; return [st]
        if isinstance(s, ast.Assert): return [st]
        if isinstance(s, ast.Expr) and isinstance(s.value, ast.Call):
            c = s.value; f = c.func
            if isinstance(f, ast.Attribute) and isinstance(f.value, ast.Name):
                tgt = st.env.get(f.value.id)
                if f.attr == 'append' and isinstance(tgt, Lst):
                    st.env[f.value.id] = Lst(tgt.parts + [self.ev(c.args[0], st)]); return [st]
                if f.attr == 'extend' and isinstance(tgt, Lst):
                    v = self.ev(c.args[0], st)
                    if isinstance(v, Opaque) and v.why == 'name ' + self.stream: v = Rest(st.cursor); st.cursor = Pos(10**6)
                    st.env[f.value.id] = Lst(tgt.parts + [v]); return [st]
                if f.attr == 'clear' and isinstance(tgt, Lst):
                    st.env[f.value.id] = Lst([]); return [st]
            if norm(f) == 'next' and norm(c.args[0]) == self.stream:
                st.cursor = st.cursor + 1; return [st]
            if isinstance(f, ast.Attribute) and norm(f.value) == self.stream and f.attr == 'consume_many':
                self.ev(c, st); return [st]
            raise Unsupported(norm(s))
        if isinstance(s, ast.Try):
            return self.run(s.body, [st])
        if isinstance(s, ast.Raise):
            st.finished = 'raise'; return [st]
        raise Unsupported(type(s).__name__ + ': ' + norm(s)[:60])

def analyse_loop(fn, stream, init_env=None, carried=None, exempt=None, recurse_attr=None):
    """analyse `for X in <stream>` main loop; carried: name of persistent list var (or None)"""
    # the main loop: `for X in <stream>` or `for K, G in itertools.groupby(<stream>, key=...)` (possibly through a local alias)
    alias = {}
    for s_ in fn.body:
        if isinstance(s_, ast.Assign) and len(s_.targets) == 1 and isinstance(s_.targets[0], ast.Name):
            alias[s_.targets[0].id] = s_.value
    loop = None; grouped = False
    for s_ in fn.body:
        if not isinstance(s_, ast.For): continue
        it = alias.get(s_.iter.id, s_.iter) if isinstance(s_.iter, ast.Name) and s_.iter.id != stream else s_.iter
        if norm(it) == stream:
            loop = s_; break
        if isinstance(it, ast.Call) and norm(it.func) in ('itertools.groupby', 'groupby') and it.args and norm(it.args[0]) == stream \
                and isinstance(s_.target, ast.Tuple) and len(s_.target.elts) == 2 and all(isinstance(x, ast.Name) for x in s_.target.elts):
            loop = s_; grouped = True; break
    if loop is None:
        raise Unsupported('no main loop over the stream `%s` found' % stream)
    pre = fn.body[:fn.body.index(loop)]; post = fn.body[fn.body.index(loop)+1:]
    A = Analyzer(fn, stream); A.exempt = exempt or (); A.recurse_attr = recurse_attr
    report = []
    starts = [('EMPTY', Lst([]))] + ([('HOLD', 'hold')] if carried else [])
    end_states = set()
    for name, cv in (starts if carried else [('-', None)]):
        st = State()
        for s in pre:
            if isinstance(s, ast.Assign) and isinstance(s.targets[0], ast.Name):
                st.env[s.targets[0].id] = A.ev(s.value, st)
        hold = None
        if carried:
            if name == 'HOLD':
                # a run [-h, 0) is held by the carried list
                st.done = Pos(0, ()) ; hold = 'h'
                st.env[carried] = Lst([Rng(Pos(0, ('-h',)), Pos(0), True)]); st.done = Pos(0, ('-h',))
            else: st.env[carried] = Lst([])
        if grouped:
            # itertools.groupby: each iteration hands out a non-empty run of consecutive items (library contract)
            n_ = st.fresh('g'); run_ = Rng(st.cursor, st.cursor + Pos(0, (n_,)), True); st.cursor = run_.b
            st.env[loop.target.elts[1].id] = run_; st.env[loop.target.elts[0].id] = Opaque('group key')
        else:
            st.env[loop.target.id] = Item(st.cursor); st.cursor = st.cursor + 1
        outs = A.run(loop.body, [st])
        for o in outs:
            # end of iteration: everything acquired must be discharged or held (contiguously, as a suffix) by the carried list
            if o.finished == 'return' or o.finished == 'raise': 
                held = o.done
            pend_ok = (o.done == o.cursor)
            if not pend_ok and carried:
                cvv = o.env.get(carried); parts = []
                try: flatten(cvv, parts)
                except Unsupported: parts = None
                if parts:
                    a = parts[0].p if isinstance(parts[0], Item) else parts[0].a
                    # contiguity
                    cur = a; ok = True
                    for x in parts:
                        xa = x.p if isinstance(x, Item) else x.a
                        if not (xa == cur): ok = False
                        cur = (x.p + 1) if isinstance(x, Item) else x.b
                    pend_ok = ok and a == o.done and cur == o.cursor
                    end_states.add('HOLD')
            elif carried:
                cvv = o.env.get(carried)
                held = []
                try:
                    flatten(cvv, held)
                except Unsupported:
                    held = []
                if held and o.finished != 'return' and o.finished != 'raise':
                    raise Violation('iteration (start %s) ends with the carried list `%s` still holding %r although everything up to %r has been '
                                    'yielded: these pieces are yielded a second time by the next flush' % (name, carried, held, o.done))
                end_states.add('EMPTY')
            if not pend_ok:
                raise Violation('iteration (start %s) ends with positions [%r,%r) neither yielded nor held; trace=%r' % (name, o.done, o.cursor, o.trace))
            report.append((name, o.finished, o.trace))
    # post-loop: carried must be flushed
    if carried:
        for name in ('EMPTY', 'HOLD'):
            st = State()
            if name == 'HOLD': st.env[carried] = Lst([Rng(Pos(0, ('-h',)), Pos(0), True)]); st.done = Pos(0, ('-h',))
            else: st.env[carried] = Lst([])
            outs = A.run(post, [st])
            for o in outs:
                if not (o.done == o.cursor):
                    raise Violation('after loop (carried %s): held run never yielded' % name)
                report.append(('post-' + name, o.finished, o.trace))
    return report



# ------------------------------------------------------------------------------------------
# character level

class P:    # piece of the current line: char range [a,b)
    def __init__(s, a, b): s.a, s.b = a, b
    def __repr__(s): return 'P[%r,%r)' % (s.a, s.b)
class C:    # constant text
    def __init__(s, v): s.v = v
    def __repr__(s): return 'C(%r)' % s.v
class Cat:
    def __init__(s, parts): s.parts = parts
    def __repr__(s): return 'Cat%r' % (s.parts,)
class NoneV:
    def __repr__(s): return 'None'
NONE = NoneV()
class OptP:  # piece or None (regex optional group)
    def __init__(s, p): s.p = p
    def __repr__(s): return 'Opt(%r)' % s.p
class B:    # symbolic boolean
    def __init__(s, kind, arg): s.kind, s.arg = kind, arg
    def __repr__(s): return 'B(%s,%r)' % (s.kind, s.arg)
class Opaque:
    def __init__(s, why=''): s.why = why
    def __repr__(s): return 'Opaque(%s)' % s.why
class Tok:
    def __init__(s, cls, text): s.cls, s.text = cls, text
    def __repr__(s): return '%s(%r)' % (s.cls, s.text)

TEXT_PRESERVING = {'sys.intern', '_strI', 'str'}
CONST_TOKENS = {'Deb822NewlineAfterValueToken': '\n', 'Deb822FieldSeparatorToken': ':'}   # from class bodies (E0)
GROUPS = ['field_name', 'separator', 'space_before', 'value', 'space_after']              # from regex tree (E2)
GROUP_CONST = {1: ':'}            # group index -> literal language (E2: L(group)== {':'})
GROUP_OPTIONAL = {3, 4}           # groups inside the optional wrapper

class St:
    def __init__(s):
        s.env = {}; s.done = Pos(0); s.L = Pos(0, ('L',)); s.facts = {}; s.nl_at = []; s.eq = {}; s.trace = []; s.fin = None; s.truth = {}
    def clone(s): return copy.deepcopy(s)
    def norm(s, p):
        # apply equalities symbol -> Pos
        changed = True
        while changed:
            changed = False
            for sym, rep in s.eq.items():
                if sym in p.syms:
                    syms = list(p.syms); syms.remove(sym); p = Pos(p.c, syms) + rep; changed = True
        return p

def unify(st, a, b):
    a, b = st.norm(a), st.norm(b)
    if a == b: return
    sa = [x for x in a.syms if x not in b.syms]; sb = [x for x in b.syms if x not in a.syms]
    if sb:
        sym = sb[0]; rest = list(b.syms); rest.remove(sym)
        # sym = a - (b.c) - rest   ; only support rest == [] or rest ⊆ a.syms
        asyms = list(a.syms)
        for r in rest:
            if r in asyms: asyms.remove(r)
            else: raise Unsupported('unify %r %r' % (a, b))
        st.eq[sym] = Pos(a.c - b.c, asyms)
    elif sa:
        unify(st, b, a)
    else:
        raise Violation('contradictory positions %r vs %r' % (a, b))

class An:
    def __init__(self, line='line'): self.paths = []; self.line = line
    def ev(self, e, st):
        if isinstance(e, ast.Constant):
            if e.value is None: return NONE
            if isinstance(e.value, str): return C(e.value)
            if isinstance(e.value, bool): return e.value
            return Opaque('const')
        if isinstance(e, ast.Name): return st.env.get(e.id, Opaque('name ' + e.id))
        if isinstance(e, ast.BinOp) and isinstance(e.op, ast.Add):
            return self.cat(self.ev(e.left, st), self.ev(e.right, st))
        if isinstance(e, ast.Subscript):
            base = self.ev(e.value, st); sl = e.slice
            if isinstance(base, OptP): base = base.p
            if isinstance(base, Cat) and isinstance(sl, ast.Slice) and sl.lower is None and sl.upper is not None and ast.literal_eval(sl.upper) == -1:
                lastp = base.parts[-1]; lastp = lastp.p if isinstance(lastp, OptP) else lastp
                if isinstance(lastp, P): return Cat(base.parts[:-1] + [P(lastp.a, lastp.b + (-1))])
            if isinstance(base, P):
                if isinstance(sl, ast.Constant) and sl.value == 0: return P(base.a, base.a + 1)
                if isinstance(sl, ast.Slice) and sl.step is None:
                    def bound(b, default):
                        if b is None: return default
                        v = self.ev_int(b, st)
                        if isinstance(v, int): return (base.a + v) if v >= 0 else (base.b + v)
                        if isinstance(v, Pos) and not base.a.syms: return Pos(base.a.c + v.c, v.syms)
                        return None
                    lo, up = bound(sl.lower, base.a), bound(sl.upper, base.b)
                    if lo is not None and up is not None: return P(lo, up)
            return Opaque('subscript ' + norm(e))
        if isinstance(e, ast.IfExp):
            return ('ifexp', e)
        if isinstance(e, ast.Call):
            fn = norm(e.func)
            if fn in TEXT_PRESERVING: return self.ev(e.args[0], st)
            if fn in CONST_TOKENS: return Tok(fn, C(CONST_TOKENS[fn]))
            if fn.startswith('Deb822') and fn.endswith('Token'): return Tok(fn, self.ev(e.args[0], st))
            if isinstance(e.func, ast.Attribute) and e.func.attr == 'endswith':
                base = self.ev(e.func.value, st); arg = self.ev(e.args[0], st)
                if isinstance(arg, C) and arg.v == '\n': return B('ends_nl', base)
            if isinstance(e.func, ast.Attribute) and e.func.attr == 'get' and isinstance(e.func.value, ast.Name) and e.func.value.id not in st.env and len(e.args) == 1:
                k = self.ev(e.args[0], st); return ('memo', k)           # None or text-equal to key
            if fn == 'list' or 'takewhile' in fn: return Opaque('lookahead')
            if isinstance(e.func, ast.Attribute) and e.func.attr == 'join': return Opaque('joined-lookahead')
            if isinstance(e.func, ast.Attribute) and e.func.attr == 'groups': return ('groups',)
            return Opaque('call ' + fn)
        return Opaque(type(e).__name__)
    def ev_int(self, e, st):
        """integer-valued expressions over the line: constants, len(piece), +/- constants, names bound to such"""
        if isinstance(e, ast.Constant) and isinstance(e.value, int) and not isinstance(e.value, bool): return e.value
        if isinstance(e, ast.UnaryOp) and isinstance(e.op, ast.USub):
            v = self.ev_int(e.operand, st)
            return -v if isinstance(v, int) else None
        if isinstance(e, ast.Name):
            v = st.env.get(e.id)
            return v if isinstance(v, (int, Pos)) and not isinstance(v, bool) else None
        if isinstance(e, ast.Call) and norm(e.func) == 'len' and len(e.args) == 1:
            b = self.ev(e.args[0], st)
            if isinstance(b, OptP): b = b.p
            if isinstance(b, P) and not b.a.syms: return Pos(b.b.c - b.a.c, b.b.syms)
            return None
        if isinstance(e, ast.BinOp) and isinstance(e.op, (ast.Add, ast.Sub)):
            l, r = self.ev_int(e.left, st), self.ev_int(e.right, st)
            if l is None or r is None: return None
            if isinstance(e.op, ast.Sub):
                if isinstance(r, int): return l - r if isinstance(l, int) else l + (-r)
                return None
            if isinstance(l, int) and isinstance(r, int): return l + r
            if isinstance(l, int): l, r = r, l
            return l + r
        return None
    def cat(self, a, b):
        pa = a.parts if isinstance(a, Cat) else [a]; pb = b.parts if isinstance(b, Cat) else [b]
        return Cat([x for x in pa + pb if not isinstance(x, NoneV)])
    def truthy(self, v, st):
        """returns list of (st, bool) with facts applied"""
        if isinstance(v, NoneV): return [(st, False)]
        if isinstance(v, bool): return [(st, v)]
        if isinstance(v, C): return [(st, bool(v.v))]
        if isinstance(v, OptP) or isinstance(v, P):
            p = v.p if isinstance(v, OptP) else v
            a, b = st.clone(), st.clone()
            # falsy => empty (or None): positions equal
            sym = [s for s in p.b.syms if s not in p.a.syms]
            if st.norm(p.a) == st.norm(p.b): return [(st, False)]
            unify(b, p.a, p.b)
            return [(a, True), (b, False)]
        if isinstance(v, B):
            a, b = st.clone(), st.clone()
            arg = v.arg
            if isinstance(arg, Cat): arg = arg.parts[-1]
            if v.kind == 'ends_nl' and isinstance(arg, (P, OptP)):
                p = arg.p if isinstance(arg, OptP) else arg
                a.nl_at.append(p.b)
            return [(a, True), (b, False)]
        if isinstance(v, Cat):
            a, b = st.clone(), st.clone()
            for part in v.parts:
                p = part.p if isinstance(part, OptP) else part
                if isinstance(p, P):
                    unify(b, p.a, p.b)
            return [(a, True), (b, False)]
        return [(st.clone(), True), (st.clone(), False)]
    def _mk_eq(self, p):
        # p.b = p.a  =>  symbol(b) := a - const(b)   (b = c_b + sym  ; a = pos)
        return Pos(p.a.c - p.b.c, p.a.syms)
    def branch(self, test, st):
        if isinstance(test, ast.UnaryOp) and isinstance(test.op, ast.Not):
            return [(s2, not v) for s2, v in self.branch(test.operand, st)]
        if isinstance(test, ast.BoolOp):
            isand = isinstance(test.op, ast.And)
            out = []
            def rec(i, s_):
                for s2, v in self.branch(test.values[i], s_):
                    if v != isand or i == len(test.values) - 1: out.append((s2, v))
                    else: rec(i + 1, s2)
            rec(0, st)
            return out
        if isinstance(test, ast.Name):
            if test.id in st.truth: return [(st, st.truth[test.id])]
            res = []
            v0 = st.env.get(test.id, Opaque())
            for s2, val in self.truthy(v0, st):
                s2.truth[test.id] = val
                if isinstance(v0, OptP) and val: s2.env[test.id] = v0.p       # truthy: the group took part in the match
                res.append((s2, val))
            return res
        if isinstance(test, ast.Compare) and len(test.ops) == 1 and isinstance(test.left, ast.Name) and isinstance(test.ops[0], (ast.Is, ast.IsNot)) \
                and isinstance(test.comparators[0], ast.Constant) and test.comparators[0].value is None:
            v = st.env.get(test.left.id); isnot = isinstance(test.ops[0], ast.IsNot)
            if isinstance(v, NoneV): return [(st, not isnot)]
            if isinstance(v, tuple) and v[0] == 'memo':
                a, b = st.clone(), st.clone(); a.env[test.left.id] = v[1]; b.env[test.left.id] = NONE
                return [(a, isnot), (b, not isnot)]
            if isinstance(v, (P, Cat, C)): return [(st, isnot)]
            if isinstance(v, OptP):
                a, b = st.clone(), st.clone(); a.env[test.left.id] = v.p
                b.env[test.left.id] = NONE; unify(b, v.p.a, v.p.b)
                return [(a, isnot), (b, not isnot)]
        if isinstance(test, ast.Compare) and len(test.ops) == 1 and isinstance(test.ops[0], (ast.Eq, ast.NotEq)) \
                and isinstance(test.comparators[0], ast.Constant) and test.comparators[0].value == '':
            # x == '': the piece is empty (an unmatched optional group is not equal to '')
            v = self.ev(test.left, st); eq = isinstance(test.ops[0], ast.Eq)
            if isinstance(v, NoneV): return [(st, not eq)]
            if isinstance(v, C): return [(st, (v.v == '') == eq)]
            if isinstance(v, (P, OptP)):
                p = v.p if isinstance(v, OptP) else v
                a, b = st.clone(), st.clone()
                unify(a, p.a, p.b)
                if isinstance(v, OptP) and isinstance(test.left, ast.Name): a.env[test.left.id] = p
                if st.norm(p.a) == st.norm(p.b): return [(a, eq)] if not isinstance(v, OptP) else [(a, eq), (b, not eq)]
                return [(a, eq), (b, not eq)]
        if isinstance(test, ast.Call):
            v = self.ev(test, st)
            if isinstance(v, B):
                return list(self.truthy(v, st))
        return [(st.clone(), True), (st.clone(), False)]
    def do_yield(self, tok, st, node):
        assert isinstance(tok, Tok), tok
        parts = tok.text.parts if isinstance(tok.text, Cat) else [tok.text]
        for x in parts:
            if isinstance(x, OptP): x = x.p
            if isinstance(x, P):
                if not (st.norm(x.a) == st.norm(st.done)):
                    raise Violation('L%d %s: emits %r but next unemitted char is %r' % (node.lineno, tok.cls, (st.norm(x.a), st.norm(x.b)), st.norm(st.done)))
                st.done = x.b
            elif isinstance(x, C):
                nxt = st.norm(st.done) + len(x.v)
                ok = (x.v == '\n' and any(st.norm(q) == st.norm(nxt) for q in st.nl_at)) or (x.v == ':' and st.env.get('__sep_at') is not None and st.norm(st.env['__sep_at']) == st.norm(st.done))
                if not ok: raise Violation('L%d %s: constant %r emitted at %r without a matching sliced character' % (node.lineno, tok.cls, x.v, st.norm(st.done)))
                st.done = nxt
            else:
                raise Unsupported('yield text ' + repr(x))
        st.trace.append((node.lineno, tok))
    def run(self, stmts, sts):
        for s in stmts:
            nxt = []
            for st in sts:
                if st.fin: nxt.append(st)
                else: nxt += self.exec(s, st)
            sts = nxt
        return sts
    def exec(self, s, st):
        if isinstance(s, ast.If):
            out = []
            for s2, v in self.branch(s.test, st): out += self.run(s.body if v else s.orelse, [s2])
            return out
        if isinstance(s, ast.Raise): st.fin = 'raise'; return [st]
        if isinstance(s, ast.Continue): st.fin = 'continue'; return [st]
        if isinstance(s, ast.Delete): return [st]
        if isinstance(s, ast.For) and isinstance(s.iter, ast.Call) and isinstance(s.iter.func, ast.Attribute) and s.iter.func.attr == 'takewhile':
            # look-ahead merge (zero or more following lines are appended to `line`): decided by C01.R6
            if not all(isinstance(b, ast.AugAssign) and norm(b.target) == self.line for b in s.body):
                raise Unsupported(norm(s)[:80])
            a, b = st.clone(), st.clone(); b.env['__merged'] = True
            return [a, b]
        if isinstance(s, ast.Expr) and isinstance(s.value, ast.Yield):
            self.do_yield(self.ev(s.value.value, st), st, s); return [st]
        if isinstance(s, ast.AugAssign) and isinstance(s.target, ast.Name) and s.target.id == self.line:
            v = self.ev(s.value, st)
            if isinstance(v, C) and v.v == '\n':     # auto-correct: line += "\n"  (mode analysed separately)
                st.nl_at.append(st.L); return [st]
            if isinstance(v, Opaque) and 'lookahead' in v.why:
                st.env['__merged'] = True; return [st]   # handled by R6
            raise Unsupported(norm(s))
        if isinstance(s, ast.Assign) and len(s.targets) == 1:
            t = s.targets[0]
            if isinstance(t, ast.Tuple) and norm(s.value).endswith('.groups()'):
                # consecutive ranges e0=0 .. e5
                prev = Pos(0)
                for i, n in enumerate(t.elts):
                    end = Pos(0, ('e%d' % (i + 1),))
                    if i in GROUP_CONST: end = prev + len(GROUP_CONST[i]); st.env['__sep_at'] = prev
                    p = P(prev, end)
                    st.env[n.id] = OptP(p) if i in GROUP_OPTIONAL else p
                    prev = end
                unify(st, prev, st.L)     # C01.R1: the match covers the whole line
                return [st]
            if isinstance(t, ast.Name):
                v = self.ev(s.value, st)
                if isinstance(v, tuple) and v[0] == 'ifexp':
                    e = v[1]; out = []
                    for s2, val in self.branch(e.test, st):
                        br = e.body if val else e.orelse
                        iv = self.ev_int(br, s2)
                        s2.env[t.id] = iv if iv is not None else self.ev(br, s2); s2.truth.pop(t.id, None); out.append(s2)
                    return out
                iv = self.ev_int(s.value, st)
                if iv is not None and isinstance(v, Opaque): v = iv
                st.env[t.id] = v; st.truth.pop(t.id, None)
                if isinstance(v, bool): st.truth[t.id] = v
                return [st]
            if isinstance(t, ast.Subscript): return [st]     # memo store, checked separately
        if isinstance(s, ast.Expr): return [st]
        raise Unsupported(norm(s)[:80])


"""Self-consistency test of the *analyser* (not of the repository): for every regex literal in the
registry the DFA verdict is compared with CPython's `re` on a fixed pseudo-random list of short
strings over the symbolic alphabet.  A disagreement is an ANALYSIS-ERROR of the engine."""
import random
import re
import sys
import os
sys.path.insert(0, os.path.dirname(os.path.dirname(os.path.abspath(__file__))))
from sa import core, rx


def selfcheck(src, per_regex=300, modes=('match', 'fullmatch', 'search')):
    rnd = random.Random(12345)
    total = bad = 0
    problems = []
    for r in src.regexes():
        if r['pattern'] is None:
            continue
        pat, fl = r['pattern'], r['flags']
        kind = 'bytes' if isinstance(pat, bytes) else 'str'
        A = rx.alphabet(kind)
        try:
            langs = {m: rx.regex_lang(pat, fl, m) for m in modes}
        except core.AnalysisError as e:
            problems.append('%s:%s unsupported: %s' % (r['module'], r['binding'], e))
            continue
        cre = re.compile(pat, fl)
        # bias the sample towards characters that occur in the pattern
        lits = [c for c in (pat if kind == 'str' else [bytes([b]) for b in pat]) if c in A.idx]
        pool = lits * 3 + A.syms[9:14] + A.syms[32:127] + (A.syms[128:] if kind == 'str' else A.syms[128:140])
        for _ in range(per_regex):
            n = rnd.randint(0, 9)
            chars = [rnd.choice(pool) for _ in range(n)]
            s = ''.join(chars) if kind == 'str' else b''.join(chars)
            for m in modes:
                total += 1
                want = getattr(cre, m)(s) is not None
                got = langs[m].accepts(s)
                if want != got:
                    bad += 1
                    if len(problems) < 10:
                        problems.append('%s:%s %s(%r): re=%s dfa=%s' % (r['module'], r['binding'], m, s, want, got))
    return total, bad, problems


if __name__ == '__main__':
    t, b, p = selfcheck(core.Source(), int(sys.argv[1]) if len(sys.argv) > 1 else 300)
    print(t, 'checks', b, 'disagreements')
    for x in p:
        print(' ', x)
    sys.exit(1 if b or p else 0)

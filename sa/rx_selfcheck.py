"""Self-consistency test of the *analyser* (not of the repository): for every regex literal in the
registry the DFA verdict is compared with CPython's `re` on a fixed pseudo-random list of short
strings over the symbolic alphabet.  A disagreement is an ANALYSIS-ERROR of the engine."""
import random
import re
import sys
import os
sys.path.insert(0, os.path.dirname(os.path.dirname(os.path.abspath(__file__))))
from sa import core, rx


def selfcheck(src, per_regex=300, modes=('match', 'fullmatch', 'search')):
    rnd = random.Random(12345)
    total = bad = 0
    problems = []
    for r in src.regexes():
        if r['pattern'] is None:
            continue
        pat, fl = r['pattern'], r['flags']
        kind = 'bytes' if isinstance(pat, bytes) else 'str'
        A = rx.alphabet(kind)
        try:
            langs = {m: rx.regex_lang(pat, fl, m) for m in modes}
        except core.AnalysisError as e:
            problems.append('%s:%s unsupported: %s' % (r['module'], r['binding'], e))
            continue
        cre = re.compile(pat, fl)
        # bias the sample towards characters that occur in the pattern
        lits = [c for c in (pat if kind == 'str' else [bytes([b]) for b in pat]) if c in A.idx]
        pool = lits * 3 + A.syms[9:14] + A.syms[32:127] + (A.syms[128:] if kind == 'str' else A.syms[128:140])
        for _ in range(per_regex):
            n = rnd.randint(0, 9)
            chars = [rnd.choice(pool) for _ in range(n)]
            s = ''.join(chars) if kind == 'str' else b''.join(chars)
            for m in modes:
                total += 1
                want = getattr(cre, m)(s) is not None
                got = langs[m].accepts(s)
                if want != got:
                    bad += 1
                    if len(problems) < 10:
                        problems.append('%s:%s %s(%r): re=%s dfa=%s' % (r['module'], r['binding'], m, s, want, got))
    return total, bad, problems


def _random_member(lang, rnd, maxlen=14):
    """a random accepted string of a marker-free language (walk over co-accessible states), or None"""
    co = rx._coacc(lang)
    if 0 not in co:
        return None
    groups = lang._groups_with()
    q, out = 0, []
    for _ in range(maxlen):
        if lang.acc[q] and rnd.random() < 0.25:
            break
        nxt = [(r, mem) for r, mem in groups if lang.trans[q][r] in co]
        if not nxt:
            break
        r, mem = rnd.choice(nxt)
        s = rnd.choice(mem) if rnd.random() < 0.5 else r
        out.append(s)
        q = lang.trans[q][s]
    # finish along a shortest path to acceptance
    guard = 0
    while not lang.acc[q] and guard < 200:
        guard += 1
        best = None
        for r, _mem in groups:
            t = lang.trans[q][r]
            if t in co and (best is None or lang.acc[t]):
                best = r
                if lang.acc[t]:
                    break
        if best is None:
            return None
        out.append(best)
        q = lang.trans[q][best]
    if not lang.acc[q]:
        return None
    return out


def selfcheck_captures(src, per_regex=120, only=None):
    """the parse CPython's backtracking chooses must be a member of the (priority-pruned) marked reader
    language the capture-agreement rules quantify over -- otherwise 'every parse in Rm agrees with the
    writer' would say nothing about the parse the library actually gets."""
    import itertools
    rnd = random.Random(4711)
    total = bad = skipped = 0
    problems = []
    for r in src.regexes():
        pat, fl = r['pattern'], r['flags']
        if pat is None:
            continue
        if only is not None and (r['module'], r['binding']) not in only:
            continue
        cre = re.compile(pat, fl)
        if cre.groups == 0:
            continue
        kind = 'bytes' if isinstance(pat, bytes) else 'str'
        A = rx.alphabet(kind)
        for g in range(1, cre.groups + 1):
            for mode in ('match', 'fullmatch'):
                try:
                    Rm, Re = rx.marked_reader(pat, fl, mode, [g])
                except core.AnalysisError:
                    skipped += 1
                    continue
                nA = A.n
                for _ in range(per_regex):
                    syms = _random_member(Re, rnd)
                    if syms is None:
                        break
                    chars = [A.syms[i] for i in syms]
                    s = ''.join(chars) if kind == 'str' else b''.join(chars)
                    m = getattr(cre, mode)(s)
                    total += 1
                    if m is None:
                        bad += 1
                        if len(problems) < 10:
                            problems.append('%s:%s %s(%r): dfa accepts, re does not' % (r['module'], r['binding'], mode, s))
                        continue
                    a, b = m.span(g)
                    seq = []
                    for i, sy in enumerate(syms):
                        if i == a:
                            seq.append(nA)
                        if i == b:
                            seq.append(nA + 1)
                        seq.append(sy)
                    if a == len(syms):
                        seq.append(nA)
                    if b == len(syms):
                        seq.append(nA + 1)
                    q = 0
                    for sy in seq:
                        q = Rm.trans[q][sy]
                    if not Rm.acc[q]:
                        bad += 1
                        if len(problems) < 10:
                            problems.append('%s:%s %s(%r) group %d span %s: the parse chosen by re is not in the marked language'
                                            % (r['module'], r['binding'], mode, s, g, (a, b)))
    return total, bad, skipped, problems


if __name__ == '__main__':
    t, b, p = selfcheck(core.Source(), int(sys.argv[1]) if len(sys.argv) > 1 else 300)
    print(t, 'checks', b, 'disagreements')
    for x in p:
        print(' ', x)
    t2, b2, sk, p2 = selfcheck_captures(core.Source())
    print(t2, 'capture checks', b2, 'disagreements', sk, 'group/mode combinations not analysable')
    for x in p2:
        print(' ', x)
    sys.exit(1 if b or p or b2 else 0)
